// C14 -- SocketServer: every accepted connection is served exactly once on a valid socket and closed afterwards;
// stop(true) returns only after the accept loop and every serve() call have ended; afterwards running() is false,
// no serve() starts, and the server can be destroyed without any thread touching it (ASan).
// A case is one history: server kind (TCP 127.0.0.1:0 / Unix path / both; concurrent or sequential), N clients in a
// burst or trickle (independent POSIX-socket clients with unique tokens; some close early), stop(true) issued at a
// generated moment from its own thread, then destruction; seeded timing jitter is injected at the library's
// hand-over points (accept, client-count decrement, loop stop, thread entry/exit) through the ASL_VERIF hook.
#include "common/vfrc.h"
#include <asl/SocketServer.h>
#include <asl/Socket.h>
#include <asl/Thread.h>
#include <atomic>
#include <memory>
#include <mutex>
#include <thread>
#include <sys/socket.h>
#include <sys/un.h>
#include <netinet/in.h>
#include <netinet/tcp.h>
#include <arpa/inet.h>
#include <poll.h>
#include <sys/stat.h>

using namespace asl;

const char* vf_harness_name() { return "C14_server"; }

// ---------------------------------------------------------------------------------------------
// observer: event counting + seeded jitter

static std::atomic<uint64_t> g_jitter{0};
static std::atomic<unsigned> g_pointno{0};
static std::atomic<int> g_accepts{0};
static std::atomic<int> g_jit_us{300};
static std::atomic<int> g_spin_ms{0};
static std::atomic<int> g_align{0}; // release the threads that are about to update the handler count at common instants

extern "C" void asl_verif_point(int kind, const volatile void* obj)
{
	if (kind == 20)
		g_accepts++;
	uint64_t js = g_jitter.load(std::memory_order_relaxed);
	if (!js || kind < 10)
		return;
	if ((kind == 20 || kind == 21) && g_align.load(std::memory_order_relaxed)) {
		// the accept loop (about to count a connection) and the handlers (about to un-count theirs) wait for the next 64 us boundary of
		// the monotonic clock, so that updates of the count by different threads start at the same instant (bounded: < 64 us)
		timespec ts;
		do
			clock_gettime(CLOCK_MONOTONIC, &ts);
		while ((ts.tv_nsec & 0xffff) > 1500);
		return;
	}
	int spin_ms = g_spin_ms.load(std::memory_order_relaxed);
	if (spin_ms > 0 && (kind == 22 || kind == 12 || kind == 11)) {
		// busy delay (not a cancellation point, unlike usleep) after the accept loop cleared its running flag / before a
		// thread stores its finished flag: widens the window between "stop(true) may return" and "the thread is really gone";
		// at thread entry (11): widens the window between "handler thread created" and "handler thread runs its first statement"
		uint64_t hh = (js ^ (uint64_t)kind * 0x9e3779b97f4a7c15ULL) * 0xbf58476d1ce4e5b9ULL;
		double until = vf::now() + 1e-3 * (double)(hh % (uint64_t)(spin_ms + 1));
		while (vf::now() < until) {
		}
		return;
	}
	unsigned idx = g_pointno++;
	uint64_t h = (js + idx * 0x9e3779b97f4a7c15ULL + (uint64_t)kind * 0xbf58476d1ce4e5b9ULL);
	h ^= h >> 29;
	h *= 0x94d049bb133111ebULL;
	h ^= h >> 32;
	if (h % 4 == 0)
		usleep((unsigned)((h >> 8) % (unsigned)g_jit_us.load()));
	else if (h % 4 == 1)
		sched_yield();
}

// ---------------------------------------------------------------------------------------------

struct Rec {
	std::mutex m;
	std::map<std::string, int> seen; // token -> times passed to serve()
	int entries = 0, exits = 0, bad_handle = 0, late_entries = 0, empty_tokens = 0;
	int max_concurrent = 0;
	std::atomic<bool> stop_returned{false};
	std::atomic<bool> server_destroyed{false};
	int entries_after_destroy = 0;
};

class Srv : public SocketServer
{
public:
	Rec* r;
	int delay_us;
	Srv(Rec* rec, int d) : r(rec), delay_us(d) {}
	void serve(Socket client)
	{
		Rec* rec = r; // the server may only be touched while this call is registered (entries > exits)
		struct stat st;
		{
			std::lock_guard<std::mutex> l(rec->m);
			rec->entries++;
			if (rec->stop_returned)
				rec->late_entries++;
			if (rec->server_destroyed)
				rec->entries_after_destroy++;
			if (rec->entries - rec->exits > rec->max_concurrent)
				rec->max_concurrent = rec->entries - rec->exits;
			if (client.handle() < 0 || fstat(client.handle(), &st) != 0)
				rec->bad_handle++;
		}
		String line;
		if (client.waitInput(60))
			line = client.readLine();
		std::string tok(*line, (size_t)line.length());
		if (delay_us)
			usleep(delay_us);
		if (!tok.empty())
			client << line + "\n";
		{
			std::lock_guard<std::mutex> l(rec->m);
			if (tok.empty())
				rec->empty_tokens++;
			else
				rec->seen[tok]++;
			if (client.handle() < 0 || fstat(client.handle(), &st) != 0)
				rec->bad_handle++;
			rec->exits++;
		}
	}
	int port()
	{
		for (int i = 0; i < _sockets.length(); i++)
			if (_sockets[i].localAddress().port() > 0)
				return _sockets[i].localAddress().port();
		return 0;
	}
	int nendpoints() { return _sockets.length(); }
	int fd(int i) { return _sockets[i].handle(); }
};

struct ClientResult {
	bool connected = false, echoed = false, eof = false, early = false;
	bool ux = false;
	int mode = 0;
	std::string token, got;
};

static int connect_to(bool unix_, int port, const std::string& path, bool free_fd0 = false)
{
	// blocking connect with a 10 s send timeout (it also bounds connect() for both families), non-blocking afterwards
	int fd = socket(unix_ ? AF_UNIX : AF_INET, SOCK_STREAM, 0);
	if (fd < 0)
		return -1;
	if (free_fd0)
		close(0); // descriptor 0 is free from here on: the server's accept() for this connection receives it
	timeval tv = {10, 0};
	setsockopt(fd, SOL_SOCKET, SO_SNDTIMEO, &tv, sizeof tv);
	int r;
	if (unix_) {
		sockaddr_un a;
		memset(&a, 0, sizeof a);
		a.sun_family = AF_UNIX;
		strncpy(a.sun_path, path.c_str(), sizeof(a.sun_path) - 1);
		r = connect(fd, (sockaddr*)&a, sizeof a);
	}
	else {
		sockaddr_in a;
		memset(&a, 0, sizeof a);
		a.sin_family = AF_INET;
		a.sin_port = htons((uint16_t)port);
		a.sin_addr.s_addr = htonl(INADDR_LOOPBACK);
		r = connect(fd, (sockaddr*)&a, sizeof a);
	}
	if (r != 0) {
		close(fd);
		return -1;
	}
	fcntl(fd, F_SETFL, fcntl(fd, F_GETFL, 0) | O_NONBLOCK);
	return fd;
}

// mode: 0 send token, read echo, wait for EOF; 1 send token then close without reading; 2 connect and close at once
static void client_main(ClientResult* res, bool unix_, int port, std::string path, int mode, int pre_delay_us, bool free_fd0 = false)
{
	if (pre_delay_us)
		usleep(pre_delay_us);
	int fd = connect_to(unix_, port, path, free_fd0);
	if (fd < 0)
		return;
	res->connected = true;
	if (mode == 2) {
		res->early = true;
		close(fd);
		return;
	}
	std::string msg = res->token + "\n";
	size_t off = 0;
	double t0 = vf::now();
	while (off < msg.size() && vf::now() - t0 < 20) {
		ssize_t n = send(fd, msg.data() + off, msg.size() - off, MSG_NOSIGNAL);
		if (n > 0)
			off += n;
		else if (n < 0 && errno != EAGAIN && errno != EINTR)
			break;
		else {
			pollfd p = {fd, POLLOUT, 0};
			poll(&p, 1, 100);
		}
	}
	if (mode == 1) {
		res->early = true;
		close(fd);
		return;
	}
	t0 = vf::now();
	while (vf::now() - t0 < 90) {
		pollfd p = {fd, POLLIN, 0};
		if (poll(&p, 1, 200) <= 0)
			continue;
		char buf[256];
		ssize_t n = recv(fd, buf, sizeof buf, 0);
		if (n > 0)
			res->got.append(buf, n);
		else if (n == 0) {
			res->eof = true;
			break;
		}
		else if (errno != EAGAIN && errno != EINTR) {
			res->eof = true; // reset by peer counts as closed
			break;
		}
	}
	res->echoed = res->got == msg;
	close(fd);
}

static std::string tmpdir()
{
	const char* t = getenv("VF_TMPDIR");
	std::string d = std::string(t ? t : "build/tmp") + "/" + std::to_string(getpid());
	mkdir((t ? std::string(t) : std::string("build/tmp")).c_str(), 0755);
	mkdir(d.c_str(), 0755);
	return d;
}

struct Hist {
	int kind = 0;       // bit0 tcp, bit1 unix (0 -> tcp)
	bool sequential = false;
	int n1 = 0;         // clients that complete before stop is issued (phase 1)
	int n2 = 0;         // clients launched around the stop (phase 2, in flight)
	int pattern = 0;    // 0 burst, 1 trickle
	int early_pct = 0;  // percentage of early-closing clients
	int stop_delay_us = 0;
	bool poke = true;   // wake the accept loop with a connection after requesting the stop (else wait for its 2 s select timeout)
	int serve_delay_us = 0;
	uint64_t jseed = 0;
	bool start_nonblocking = true;
	int spin_ms = 0;            // busy delay injected at the loop-stop / finished-flag points
	bool destroy_at_once = false; // destroy the server as soon as stop(true) has returned
	bool no_probe = false;          // no probe connections: with no clients either, stop(true) follows start() at once
	bool align_counts = false;      // see g_align
	bool stdin_closed = false;      // the probe connections are accepted while descriptor 0 is free
	bool failed_bind_first = false; // a bind() to a port somebody else is listening on precedes the real binds
	int fdorder = 0;              // two endpoints: bit0 the endpoint bound second gets the LOWER descriptor, bit1 the Unix path is bound first
};

static int g_hist_no = 0;

static void run_history(const Hist& h)
{
	// the library writes with MSG_NOSIGNAL: a client that closes early must not kill the process. Keep the default SIGPIPE
	// disposition here (the runtime ignores it otherwise) so that a write without that protection is visible as a crash.
	vf::die_on_sigpipe();
	g_accepts = 0;
	g_pointno = 0;
	Rec* rec = new Rec;
	Srv* srv = new Srv(rec, h.serve_delay_us);
	srv->setSequential(h.sequential);
	std::string dir = tmpdir();
	std::string path = dir + "/s" + std::to_string(g_hist_no++) + ".sock";
	unlink(path.c_str());
	bool tcp = (h.kind & 1) || !(h.kind & 2), ux = (h.kind & 2) != 0;
	// descriptors are handed out lowest-free-first: a placeholder opened before the first bind and closed before the second
	// gives the endpoint bound second the lower descriptor (as happens in a program that closes a file between two binds)
	// a bind() that fails (port taken by somebody else) must leave nothing behind: the server then serves its other endpoints only
	int squatter = -1;
	if (h.failed_bind_first) {
		squatter = socket(AF_INET, SOCK_STREAM, 0);
		sockaddr_in sa;
		memset(&sa, 0, sizeof sa);
		sa.sin_family = AF_INET;
		sa.sin_addr.s_addr = htonl(INADDR_LOOPBACK);
		sa.sin_port = 0;
		socklen_t sl = sizeof sa;
		if (squatter >= 0 && ::bind(squatter, (sockaddr*)&sa, sizeof sa) == 0 && listen(squatter, 1) == 0 && getsockname(squatter, (sockaddr*)&sa, &sl) == 0) {
			bool ok = srv->bind("127.0.0.1", ntohs(sa.sin_port));
			if (!ok)
				vf::stats().cls("bind_failed_first(port_in_use)");
			else
				vf::stats().cls("bind_on_a_listening_port_succeeded(not judged)");
		}
	}
	int placeholder = (tcp && ux && (h.fdorder & 1)) ? open("/dev/null", O_RDONLY) : -1;
	for (int step = 0; step < 2; step++) {
		bool do_unix = (step == 0) == ((h.fdorder & 2) != 0);
		if (step == 1 && placeholder >= 0)
			close(placeholder);
		if (!do_unix && tcp)
			VF_CHECK(srv->bind("127.0.0.1", 0), "infrastructure: cannot bind a TCP port");
		if (do_unix && ux)
			VF_CHECK(srv->bindPath(String(path.c_str())), "infrastructure: cannot bind unix path ", path);
	}
	int port = tcp ? srv->port() : 0;
	if (tcp)
		VF_CHECK(port > 0, "infrastructure: no TCP port");
	if (srv->nendpoints() == 2)
		vf::stats().cls(srv->fd(1) < srv->fd(0) ? "two_endpoints.second_has_lower_descriptor" : "two_endpoints.ascending_descriptors");
	g_jitter = h.jseed;
	g_spin_ms = h.spin_ms;
	g_align = h.align_counts ? 1 : 0;
	// start(true) runs the accept loop in the server's own thread; start(false) runs it in the calling thread (here: a harness
	// thread) and returns when the loop has ended
	auto loop_returned_p = std::make_shared<std::atomic<bool>>(false); // (shared: the thread is detached if the loop never ends)
	std::atomic<bool>& loop_returned = *loop_returned_p;
	std::thread loopth;
	if (h.start_nonblocking)
		srv->start(true);
	else {
		loopth = std::thread([srv, loop_returned_p]() {
			srv->start(false);
			*loop_returned_p = true;
		});
		double tw = vf::now();
		while (!srv->running() && vf::now() - tw < 10)
			usleep(100);
	}

	auto launch = [&](std::vector<ClientResult>& res, std::vector<std::thread>& ths, int n, int base, const char* tag) {
		res.resize(n);
		for (int i = 0; i < n; i++) {
			res[i].token = vf::str(tag, base + i, "-", h.jseed % 100000);
			bool u = ux && (!tcp || (i % 2));
			int mode = (int)((uint64_t)(i * 37 + h.jseed) % 100) < h.early_pct ? 1 + (i % 2) : 0;
			int pre = h.pattern == 1 ? (int)((i * 131) % 2000) : 0;
			res[i].ux = u;
			res[i].mode = mode;
			ths.emplace_back(client_main, &res[i], u, port, path, mode, pre, false);
		}
	};
	// phase 1: clients that all finish before the stop is issued
	std::vector<ClientResult> r1;
	std::vector<std::thread> t1;
	launch(r1, t1, h.n1, 0, "a");
	for (auto& t : t1)
		t.join();
	// Every connection the server provably has in its accept queue is taken by the running accept loop and passed to serve():
	// clients that got their echo (proved by the echo), early-closing clients on the Unix path (connect() returns only once the
	// connection is queued, and it stays queued after the client closed), and early-closing TCP clients when the whole burst fits
	// the listen backlog (beyond it Linux may drop the handshake's last ACK, and a connect-and-close client then never reaches
	// the server at all - that is the kernel's doing, not judged). Wait for that (expected: milliseconds; 20 s bound), judged below.
	int tcp_clients1 = 0;
	for (auto& c : r1)
		tcp_clients1 += !c.ux;
	std::vector<std::string> must_tokens; // early clients that sent their token before closing
	int must_empty = 0;                   // clients that connected and closed without sending
	for (auto& c : r1) {
		if (!c.connected || !c.early)
			continue;
		if (!(c.ux || tcp_clients1 <= 30))
			continue;
		if (c.mode == 1)
			must_tokens.push_back(c.token);
		else
			must_empty++;
	}
	std::string unserved;
	auto settled = [&]() {
		std::lock_guard<std::mutex> l(rec->m);
		unserved.clear();
		for (auto& t : must_tokens)
			if (!rec->seen.count(t))
				unserved = vf::str("the connection of early-closing client ", t, " (token sent, then closed)");
		if (unserved.empty() && rec->empty_tokens < must_empty)
			unserved = vf::str(must_empty - rec->empty_tokens, " of ", must_empty, " connections that were opened and closed without sending");
		return unserved.empty();
	};
	{
		double ts = vf::now();
		while (!settled() && vf::now() - ts < 20)
			usleep(500);
	}
	// a running server keeps accepting on every endpoint it is bound to: with no client in flight and an empty backlog, one
	// probe connection per endpoint must be established, served and closed (90 s bound inside the client, expected: milliseconds)
	ClientResult probe[2];
	bool probed[2] = {false, false};
	for (int ep = 0; ep < 2; ep++) {
		if ((ep == 0 && !tcp) || (ep == 1 && !ux) || h.no_probe)
			continue;
		probed[ep] = true;
		probe[ep].token = vf::str("probe", ep, "-", h.jseed % 100000);
		if (h.stdin_closed) {
			// a process that has closed its standard input (a daemon): the accepted connection is given descriptor 0; it is served and
			// closed like any other (the probe must see its echo and then end of stream)
			int saved0 = dup(0);
			client_main(&probe[ep], ep == 1, port, path, 0, 0, true);
			if (saved0 >= 0) {
				dup2(saved0, 0);
				close(saved0);
			}
			vf::stats().cls("probe_connection_accepted_on_descriptor_0");
		}
		else
			client_main(&probe[ep], ep == 1, port, path, 0, 0);
	}
	// phase 2: clients in flight while stop(true) runs in its own thread
	std::vector<ClientResult> r2;
	std::vector<std::thread> t2;
	launch(r2, t2, h.n2, 1000, "b");
	if (h.stop_delay_us)
		usleep(h.stop_delay_us);
	std::atomic<bool> stop_done{false};
	bool running_after = true;
	int entries_at_stop = -1, exits_at_stop = -1, accepts_at_stop = -1;
	bool loop_returned_at_stop = true;
	std::thread stopper([&]() {
		srv->stop(true);
		// --- the moment stop(true) returns ---
		running_after = srv->running();
		loop_returned_at_stop = h.start_nonblocking || loop_returned.load();
		{
			std::lock_guard<std::mutex> l(rec->m);
			entries_at_stop = rec->entries;
			exits_at_stop = rec->exits;
		}
		accepts_at_stop = g_accepts;
		rec->stop_returned = true;
		stop_done = true;
	});
	ClientResult poke[4];
	double t0 = vf::now();
	if (h.poke) {
		// wake the accept loop (it only looks at the stop request after a connection or its 2 s select timeout);
		// the first poke may arrive before the stop request is visible, so repeat a few times
		for (int k = 0; k < 4 && !stop_done; k++) {
			usleep(k == 0 ? 1500 : 15000);
			if (stop_done)
				break;
			poke[k].token = vf::str("poke", k);
			client_main(&poke[k], ux && !tcp, port, path, 1, 0);
		}
	}
	while (!stop_done && vf::now() - t0 < 60)
		usleep(500);
	bool hung = !stop_done;
	if (hung) {
		// keep the process usable: wake the loop a few more times, then give up on this thread
		for (int k = 0; k < 5 && !stop_done; k++) {
			ClientResult p2;
			p2.token = "poke2";
			client_main(&p2, ux && !tcp, port, path, 1, 0);
			usleep(200000);
		}
	}
	if (stop_done)
		stopper.join();
	else
		stopper.detach();
	std::string err;
	if (hung)
		err = "stop(true) did not return within 60 s";
	// watch for late serve() entries, then destroy the server and watch again (ASan catches a thread touching it)
	bool running_later = false;
	if (!h.destroy_at_once && !hung) {
		// "from then on running() is false": sampled for a while after stop(true) returned
		double tw = vf::now(), window = (h.poke ? 0.030 : 0.150) + 1e-3 * h.spin_ms;
		while (vf::now() - tw < window) {
			if (srv->running())
				running_later = true;
			usleep(500);
		}
	}
	else if (!h.destroy_at_once)
		usleep(h.poke ? 30000 : 150000);
	bool loop_stuck = false;
	if (loopth.joinable()) {
		// the blocking start() call returns once the loop has ended (it has, when stop(true) returned; allow for the last few statements)
		double tw = vf::now();
		while (!loop_returned && vf::now() - tw < 20)
			usleep(200);
		if (loop_returned)
			loopth.join();
		else {
			loop_stuck = true;
			loopth.detach();
		}
	}
	std::atomic<int> canary_bad{0}, canary_rounds{0};
	if (!hung && !loop_stuck) {
		// while the server is destroyed, another thread keeps opening descriptors of its own and checks that each is still ITS open
		// descriptor a moment later: the destructor closes the server's descriptors, each exactly once, and nobody else's
		std::atomic<bool> canary_stop{false};
		std::thread canary([&]() {
			while (!canary_stop) {
				int fds[6];
				struct stat st0[6], st1;
				for (int i = 0; i < 6; i++) {
					fds[i] = open("/dev/null", O_RDONLY);
					if (fds[i] >= 0)
						fstat(fds[i], &st0[i]);
				}
				for (volatile int spin = 0; spin < 2000; spin++) {
				}
				for (int i = 0; i < 6; i++)
					if (fds[i] >= 0) {
						if (fstat(fds[i], &st1) != 0 || st1.st_rdev != st0[i].st_rdev || st1.st_ino != st0[i].st_ino)
							canary_bad++;
						if (close(fds[i]) != 0)
							canary_bad++;
					}
				canary_rounds++;
			}
		});
		while (canary_rounds < 3)
			sched_yield();
		rec->server_destroyed = true;
		delete srv;
		usleep(2000);
		canary_stop = true;
		canary.join();
		usleep((h.poke ? 30000 : 150000) + h.spin_ms * 1000);
	}
	if (err.empty() && canary_bad)
		err = vf::str("while the server was being destroyed, ", canary_bad.load(), " descriptors opened by another thread were closed or replaced under it (a descriptor closed twice by the destructor)");
	if (err.empty() && loop_stuck)
		err = "stop(true) returned, but the blocking start(false) call that runs the accept loop had not returned 20 s later";
	// (in-flight clients that were never accepted see the listening socket go away now)
	for (auto& t : t2)
		t.join();
	g_jitter = 0;
	g_spin_ms = 0;
	g_align = 0;
	unlink(path.c_str());
	if (squatter >= 0)
		close(squatter);

	std::lock_guard<std::mutex> l(rec->m);
	std::map<std::string, const ClientResult*> sent;
	for (auto& c : r1)
		sent[c.token] = &c;
	for (auto& c : r2)
		sent[c.token] = &c;
	for (int k = 0; k < 4; k++)
		sent[vf::str("poke", k)] = &poke[k];
	for (int ep = 0; ep < 2; ep++)
		if (probed[ep]) {
			sent[probe[ep].token] = &probe[ep];
			if (err.empty() && !(probe[ep].connected && probe[ep].echoed && probe[ep].eof))
				err = vf::str("the running server (no client in flight, nothing queued) did not serve a new connection on its ", ep ? "Unix path" : "TCP port",
				              ": connected=", probe[ep].connected, " echoed=", probe[ep].echoed, " closed=", probe[ep].eof);
		}
	ClientResult p2;
	sent["poke2"] = &p2;
	if (err.empty())
		for (auto& kv : rec->seen) {
			if (!sent.count(kv.first)) {
				err = vf::str("serve() received a token nobody sent: ", vf::show(kv.first));
				break;
			}
			if (kv.second != 1 && kv.first != "poke2") {
				err = vf::str("token ", kv.first, " was passed to serve() ", kv.second, " times");
				break;
			}
		}
	if (err.empty())
		for (auto& c : r1) {
			if (!c.connected) {
				vf::stats().cls("phase1_connect_failed(not judged)");
				continue; // the property speaks about accepted connections; a refused connect is not judged
			}
			if (c.early)
				continue;
			if (!rec->seen.count(c.token)) {
				err = vf::str("connection of client ", c.token, " (completed before stop) was never passed to serve()");
				break;
			}
			if (!c.echoed) {
				err = vf::str("client ", c.token, " did not get its own echo back: got ", vf::show(c.got));
				break;
			}
			if (!c.eof) {
				err = vf::str("connection of client ", c.token, " was not closed after serve() returned (no EOF within 90 s)");
				break;
			}
		}
	if (err.empty())
		for (auto& c : r2)
			if (c.connected && !c.early && !c.got.empty() && !c.echoed) {
				err = vf::str("in-flight client ", c.token, " got a wrong echo: ", vf::show(c.got));
				break;
			}
	if (err.empty() && !unserved.empty())
		err = vf::str(unserved, " was established while the server was running but was not passed to serve() within 20 s (before any stop request)");
	if (err.empty() && rec->bad_handle)
		err = vf::str(rec->bad_handle, " serve() calls saw an invalid socket handle (on entry or on exit)");
	if (err.empty() && !hung) {
		if (entries_at_stop != exits_at_stop)
			err = vf::str("when stop(true) returned ", entries_at_stop - exits_at_stop, " serve() calls were still in flight (entries ", entries_at_stop, ", exits ", exits_at_stop, ")");
		else if (running_after)
			err = "running() is true right after stop(true) returned";
		else if (running_later)
			err = "running() became true again after stop(true) had returned";
		else if (rec->late_entries)
			err = vf::str(rec->late_entries, " serve() calls started after stop(true) had returned");
		else if (accepts_at_stop != entries_at_stop)
			err = vf::str("accepted connections (", accepts_at_stop, ") != serve() entries (", entries_at_stop, ") when stop(true) returned");
		else if (rec->entries != entries_at_stop || g_accepts != accepts_at_stop)
			err = vf::str("activity after stop(true) returned: entries ", rec->entries, " vs ", entries_at_stop, ", accepts ", g_accepts.load(), " vs ", accepts_at_stop);
	}
	int conc = rec->max_concurrent;
	bool inflight = false;
	for (auto& c : r2)
		if (c.connected)
			inflight = true;
	vf::stats().cls(h.sequential ? "mode.sequential" : "mode.concurrent");
	vf::stats().cls(h.start_nonblocking ? "start.own_thread" : "start.blocking_in_caller_thread");
	if (h.no_probe && h.n1 == 0)
		vf::stats().cls("stop_right_after_start(no_probe,no_phase1_clients)");
	if (h.align_counts)
		vf::stats().cls("count_updates_aligned");
	vf::stats().cls(ux && tcp ? "bind.both" : ux ? "bind.unix" : "bind.tcp");
	if (conc >= 2)
		vf::stats().cls("concurrent_handlers>=2");
	if (inflight)
		vf::stats().cls("connection_in_flight_at_stop");
	vf::stats().cls("connections_served", rec->entries);
	if (!hung && !loop_stuck)
		delete rec; // (on a hang the server thread may still use it)
	if (!err.empty())
		VF_FAIL(err);
}


// A long life: N connections one after the other to a concurrent server on a Unix path (N defaults to more than the number of
// thread stacks the process could keep mapped if finished handler threads were never released: vm.max_map_count / 2 + 3000).
// Every connection must be served (echo) and closed (end of stream); then stop(true) and destruction as usual.
static void run_long(long n)
{
	vf::die_on_sigpipe();
	long maxmap = 65530;
	if (FILE* f = fopen("/proc/sys/vm/max_map_count", "r")) {
		if (fscanf(f, "%ld", &maxmap) != 1)
			maxmap = 65530;
		fclose(f);
	}
	long total = n > 0 ? n : maxmap / 2 + 3000;
	if (total > 120000)
		total = 120000;
	Rec* rec = new Rec;
	Srv* srv = new Srv(rec, 0);
	std::string path = tmpdir() + "/long" + std::to_string(g_hist_no++) + ".sock";
	unlink(path.c_str());
	VF_CHECK(srv->bindPath(String(path.c_str())), "infrastructure: cannot bind unix path ", path);
	g_jitter = 0;
	srv->start(true);
	std::string err;
	for (long i = 0; i < total && err.empty(); i++) {
		ClientResult c;
		c.token = vf::str("L", i);
		client_main(&c, true, 0, path, 0, 0);
		if (!c.connected)
			err = vf::str("connection ", i + 1, " of ", total, " (one after the other, all earlier ones served and closed): connect failed");
		else if (!c.echoed)
			err = vf::str("connection ", i + 1, " of ", total, " (one after the other): not served, got ", vf::show(c.got));
		else if (!c.eof)
			err = vf::str("connection ", i + 1, " of ", total, " (one after the other): not closed after serve() returned");
	}
	// (the flag lives on the heap: a stopper that is given up on below may still finish later)
	auto stop_done_p = std::make_shared<std::atomic<bool>>(false);
	std::atomic<bool>& stop_done = *stop_done_p;
	std::thread stopper([srv, stop_done_p]() {
		srv->stop(true);
		*stop_done_p = true;
	});
	double t0 = vf::now();
	for (int k = 0; !stop_done && vf::now() - t0 < 60; k++) {
		ClientResult p;
		p.token = "poke";
		client_main(&p, true, 0, path, 1, 0);
		usleep(20000);
	}
	if (stop_done) {
		stopper.join();
		delete srv;
		int entries = rec->entries;
		delete rec;
		if (err.empty() && entries < total)
			err = vf::str(total, " connections were made, serve() was entered ", entries, " times");
	}
	else {
		stopper.detach();
		if (err.empty())
			err = "stop(true) did not return within 60 s after a long series of connections";
	}
	unlink(path.c_str());
	vf::stats().cls(total > maxmap / 2 ? "long.series_longer_than_map_limit/2" : "long.series_short");
	vf::stats().cls("long.connections", total);
	if (!err.empty())
		VF_FAIL(err);
}

static Hist parse_hist(const vf::Op& o)
{
	Hist h;
	h.kind = (int)(o.i(0) & 3);
	h.sequential = o.i(1) & 1;
	h.n1 = (int)(o.i(2) < 0 ? 0 : o.i(2) > 200 ? 200 : o.i(2));
	h.n2 = (int)(o.i(3) < 0 ? 0 : o.i(3) > 100 ? 100 : o.i(3));
	h.pattern = (int)(o.i(4) & 1);
	h.early_pct = (int)(o.i(5) < 0 ? 0 : o.i(5) > 100 ? 100 : o.i(5));
	h.stop_delay_us = (int)(o.i(6) < 0 ? 0 : o.i(6) > 5000 ? 5000 : o.i(6));
	h.poke = o.i(7, 1) != 0;
	h.serve_delay_us = (int)(o.i(8) < 0 ? 0 : o.i(8) > 3000 ? 3000 : o.i(8));
	h.jseed = (uint64_t)o.i(9);
	h.spin_ms = (int)(o.i(10) < 0 ? 0 : o.i(10) > 300 ? 300 : o.i(10));
	h.destroy_at_once = o.i(11) & 1;
	h.fdorder = (int)(o.i(12, 0) & 3);
	h.start_nonblocking = !(o.i(13, 0) & 1);
	h.failed_bind_first = (o.i(14, 0) & 1) != 0;
	h.stdin_closed = (o.i(15, 0) & 1) != 0;
	h.no_probe = (o.i(16, 0) & 1) != 0;
	h.align_counts = (o.i(17, 0) & 1) != 0;
	return h;
}

void vf_run_case(const std::string& part, const vf::Case& c)
{
	for (auto& o : c.ops) {
		if (o.name == "hist")
			run_history(parse_hist(o));
		else if (o.name == "long")
			run_long((long)o.i(0));
	}
}

void vf_search(const vf::Args& a)
{
	using namespace rc;
	g_jit_us = 400;
	{
		// one long series (worker 0: beyond the mapping limit; two other workers: short ones)
		vf::Case c;
		c.add(vf::Op("long", {a.worker == 0 ? 0 : 400}));
		if (a.worker < 3 && vf::runner().run("long", c))
			vf::stats().nt(vf::fnv(vf::serialize(c)) + a.worker);
	}
	auto g = gen::map(gen::tuple(gen::tuple(vf::irange<int>(0, 3), vf::irange<int>(0, 1), gen::weightedOneOf<int>({{5, vf::irange<int>(0, 12)}, {2, vf::irange<int>(13, 60)}, {1, vf::irange<int>(61, 200)}}),
	                                        gen::weightedOneOf<int>({{3, vf::irange<int>(0, 8)}, {2, vf::irange<int>(9, 40)}})),
	                             gen::tuple(vf::irange<int>(0, 1), gen::element(0, 0, 10, 30, 60), gen::oneOf(gen::just(0), vf::irange<int>(0, 3000)),
	                                        gen::weightedElement<int>({{30, 1}, {1, 0}}), gen::oneOf(gen::just(0), vf::irange<int>(0, 2000)), vf::irange<int>(1, 1000000)),
	                             gen::pair(gen::weightedOneOf<int>({{3, gen::just(0)}, {1, vf::irange<int>(50, 250)}}), vf::irange<int>(0, 1))),
	                  [](const std::tuple<std::tuple<int, int, int, int>, std::tuple<int, int, int, int, int, int>, std::pair<int, int>>& t) {
		                  auto& x = std::get<0>(t);
		                  auto& y = std::get<1>(t);
		                  vf::Case c;
		                  c.add(vf::Op("hist", {std::get<0>(x), std::get<1>(x), std::get<2>(x), std::get<3>(x), std::get<0>(y), std::get<1>(y), std::get<2>(y), std::get<3>(y), std::get<4>(y), std::get<5>(y), std::get<2>(t).first, std::get<2>(t).first ? 1 : std::get<2>(t).second, (std::get<5>(y) / 7) % 4, (std::get<5>(y) / 29) % 4 == 0 ? 1 : 0, (std::get<5>(y) / 113) % 3 == 0 ? 1 : 0, (std::get<5>(y) / 337) % 4 == 0 ? 1 : 0, (std::get<5>(y) / 577) % 3 == 0 ? 1 : 0, (std::get<5>(y) / 1013) % 2}));
		                  return c;
	                  });
	{
		// stop(true) right after start(): no client, no probe connection, no delay - the accept thread may not even have begun
		// (fixed shapes, run by every worker; jitter seeds differ)
		//            kind seq n1 n2 pat early stopdelay poke servedelay jseed spin destroy fdorder blocking failedbind stdin noprobe align
		const long long shapes[][18] = {{1, 0, 0, 0, 0, 0, 0, 1, 0, 0, 0, 0, 0, 0, 0, 0, 1, 0},
		                                {1, 0, 0, 0, 0, 0, 0, 1, 0, 0, 0, 1, 0, 0, 0, 0, 1, 0},
		                                {2, 0, 0, 0, 0, 0, 0, 1, 0, 0, 120, 1, 0, 0, 0, 0, 1, 0},
		                                {1, 1, 0, 0, 0, 0, 0, 0, 0, 0, 0, 0, 0, 0, 0, 0, 1, 0}};
		for (auto& sh : shapes) {
			vf::Case c;
			std::vector<long long> v(sh, sh + 18);
			v[9] = 1 + (long long)((a.seed * 131 + a.worker * 17 + (&sh - shapes)) % 999983);
			vf::Op hop("hist");
			hop.a = v;
			c.add(hop);
			if (!vf::runner().run("history", c))
				return;
			vf::stats().nt(vf::fnv(vf::serialize(c)));
		}
	}
	vf::check_cases("history", a.n(12, 200), 100, g, [](const vf::Case& c) {
		auto& o = c.ops[0];
		if (o.i(3) > 0 || (o.i(2) >= 2 && !(o.i(1) & 1)))
			vf::stats().nt(vf::fnv(vf::serialize(c)));
		if (o.i(2) + o.i(3) == 0)
			vf::stats().cls("no_clients");
		if (!o.i(7))
			vf::stats().cls("natural_2s_timeout");
		if (o.i(2) > 60)
			vf::stats().cls("burst>60");
		if (o.i(10) > 0)
			vf::stats().cls("spin_delay_at_loop_stop_and_thread_entry+destroy_at_once");
		else if (o.i(11) & 1)
			vf::stats().cls("destroy_at_once");
		vf::stats().sample("hist kind seq n_before n_inflight pattern early% stop_delay_us poke serve_delay_us jitter_seed spin_ms destroy_at_once fd_order blocking_start failed_bind_first stdin_closed no_probe align_counts: " + vf::serialize(c), 4);
	});
}
