// C01 -- Array, Stack and Queue against an aliasing-aware std::vector reference model.
//
// A case is an operation history over four handle slots (0,1: Array<T>, 2: Stack<T>, 3: Queue<T>; every slot is
// an Array<T> and takes all Array operations) for one element type T chosen by the part name:
//   int   trivially copyable            elem  counted constructor/destructor + heap payload      str  asl::String
// Model: every slot points to a shared std::vector<int> cell of abstract values (copying/assigning a handle aliases
// the cell; clone/dup/slice/filter/... make a new one).  After EVERY op, for EVERY live slot: length and all
// elements equal the cell, rc() equals the number of slots aliasing the cell, cap() >= length(); the number of live
// Elem instances equals the sum of the lengths of the distinct cells and no Elem was used unconstructed or destroyed
// twice.  At the end all slots are dropped: live count 0 and the allocated bytes are back at the pre-case value.
// AddressSanitizer decides "no access outside live storage".
//
// Known finding KF-1 (growth reallocates the block while another handle still points to it): an op that would have
// to reallocate (needed length > cap()) while the model says the cell is shared is replaced by a no-op and counted
// (excluded_known).  The op `unsafe_push` (never generated) performs it anyway: witness of KF-1.
#include "common/vfrc.h"
#include <functional>
#include "common/ref_codec.h"
#include <asl/Array.h>
#include <asl/Stack.h>
#include <asl/Queue.h>
#include <asl/String.h>
#include <memory>
#include <algorithm>

using asl::Array;
using asl::Queue;
using asl::Stack;
using asl::String;

const char* vf_harness_name() { return "C01_array"; }

static const int VMAX = 4096;   // abstract values are -1 (the default-constructed element) and 0..VMAX-1
static const int MAXLEN = 1700; // histories never make an array longer than this
static const int INVALID = -2;

static int nv(long long a) { return a < 0 ? -1 : (int)(a % VMAX); }

// ---------------------------------------------------------------------------------------------- element types

// text of value v: decimal digits padded with letters to lengths around the inline/heap switch of String (15/16)
static std::vector<std::string>* g_text;
static std::string make_text(int v)
{
	if (v < 0)
		return "";
	static const size_t L[10] = {1, 2, 7, 14, 15, 16, 17, 23, 24, 40};
	std::string s = std::to_string(v);
	size_t want = L[v % 10];
	while (s.size() < want)
		s += char('a' + (v + s.size()) % 26);
	return s;
}
static const std::string& text(int v) { return (*g_text)[(size_t)(v + 1)]; }

// Counted element with heap payload; bitwise relocatable (no pointer into itself), as Array requires.
struct Elem {
	int key, tag;
	int* p;
	static long live, bad;
	static const int MAGIC = 0x5EED1234;
	bool ok() const { return (key ^ tag) == MAGIC; }
	void set(int v)
	{
		key = v;
		tag = v ^ MAGIC;
		p = new int(v);
	}
	Elem()
	{
		live++;
		set(-1);
	}
	explicit Elem(int v)
	{
		live++;
		set(v);
	}
	Elem(const Elem& o)
	{
		live++;
		if (!o.ok()) { // copy from storage that holds no constructed element
			bad++;
			set(INVALID);
			return;
		}
		set(*o.p);
	}
	Elem& operator=(const Elem& o)
	{
		if (!ok() || !o.ok()) { // assignment to / from storage that holds no constructed element
			bad++;
			return *this;
		}
		int* q = new int(*o.p);
		delete p;
		p = q;
		key = o.key;
		tag = o.tag;
		return *this;
	}
	~Elem()
	{
		if (!ok()) { // destroyed twice / never constructed
			bad++;
			return;
		}
		live--;
		delete p;
		key = 0x0DEAD;
		tag = 0;
		p = 0;
	}
	bool operator==(const Elem& o) const { return key == o.key; }
	bool operator!=(const Elem& o) const { return key != o.key; }
	bool operator<(const Elem& o) const { return (key & 7) < (o.key & 7); } // many ties: sort is not stable
	explicit operator int() const { return key; }
	operator String() const { return String(key); }
};
long Elem::live = 0;
long Elem::bad = 0;

template <class T>
struct Tr;
template <>
struct Tr<int> {
	typedef Elem K;
	enum { counted = 0, trivial = 1 };
	static int mk(int v) { return v; }
	static bool same(const int& x, int v) { return x == v; }
	static int val(const int& x) { return x; }
	static bool less(int a, int b) { return a < b; }
	static int keyv(int v) { return ((v % 7) + 7) % 7; }
	static int key(const int& x) { return keyv(x); }
	static std::string joined(int v) { return std::to_string(v); }
};
template <>
struct Tr<Elem> {
	typedef int K;
	enum { counted = 1, trivial = 0 };
	static Elem mk(int v) { return Elem(v); }
	static bool same(const Elem& x, int v) { return x.ok() && x.key == v && x.p && *x.p == v; }
	static int val(const Elem& x) { return x.ok() ? x.key : INVALID; }
	static bool less(int a, int b) { return (a & 7) < (b & 7); }
	static int keyv(int v) { return v / 3; }
	static int key(const Elem& x) { return x.key / 3; }
	static std::string joined(int v) { return std::to_string(v); }
};
template <>
struct Tr<String> {
	typedef const char* K;
	enum { counted = 1, trivial = 0 };
	static String mk(int v) { return String(text(v).c_str()); }
	static bool same(const String& x, int v)
	{
		const std::string& t = text(v);
		return x.length() == (int)t.size() && memcmp(*x, t.c_str(), t.size() + 1) == 0;
	}
	static int val(const String& x)
	{
		if (x.length() == 0)
			return -1;
		const char* s = *x;
		if (*s < '0' || *s > '9')
			return INVALID;
		long v = 0;
		while (*s >= '0' && *s <= '9' && v < VMAX)
			v = v * 10 + (*s++ - '0');
		return v < VMAX ? (int)v : INVALID;
	}
	static bool less(int a, int b) { return strcmp(text(a).c_str(), text(b).c_str()) < 0; }
	static int keyv(int v) { return (int)text(v).size(); }
	static int key(const String& x) { return x.length(); }
	static std::string joined(int v) { return text(v); }
};
static bool sameK(const Elem& x, int v) { return Tr<Elem>::same(x, v); }
static bool sameK(const int& x, int v) { return x == v; }
static bool sameK(const char* const& x, int v) { return x && text(v) == x; }

static bool pv(int v, int kind) { return (v + 1) % (2 + kind % 3) == 0; }
static int fv(int v) { return v < 0 ? 5 : (v * 7 + 3) % VMAX; }

// ---------------------------------------------------------------------------------------------- bookkeeping without allocation

enum {
	F_ALIASMUT = 1,
	F_GROW = 2,
	F_SELFARG = 4,
	F_SHRINK = 8
};
enum Cls {
	C_ALIAS_MUT,
	C_SELFARG_ATCAP,
	C_SELFARG_ROOM,
	C_SELFARG_VIA_ALIAS,
	C_APPEND_SELF,
	C_APPEND_ALIAS,
	C_APPENDP_SELF,
	C_SHRINK_COUNTED,
	C_GROW_INSERT,
	C_GROW_RESERVE_MALLOC,
	C_GROW_RESERVE_REALLOC,
	C_EXCLUDED_KF1,
	C_AUTONEW,
	C_SKIP,
	C_SKIP_MAXLEN,
	C_CLONE_THEN_SOURCE_CHANGED,
	C_DROP_LAST_HANDLE,
	C_DROP_SHARED,
	C_SLICE_ZERO_MEANS_END,
	C_LEN_GE_100,
	C_LEN_GE_1000,
	NCLS
};
static const char* cls_names[NCLS] = {"alias.mutation_through_shared_handle", "selfarg.at_capacity", "selfarg.with_room", "selfarg.through_alias_handle",
                                      "append.self", "append.alias_handle", "appendp.pointer_into_self", "shrink.counted_type", "grow.insert_realloc",
                                      "grow.reserve_malloc_path", "grow.reserve_realloc_path", "excluded.kf1_growth_while_shared", "autonew", "skip.precondition",
                                      "skip.maxlen", "clone.source_changed_later", "drop.last_handle", "drop.shared", "slice.zero_means_end", "len.ge100", "len.ge1000"};
static const int NOPMAX = 96;
struct Rec {
	unsigned flags;
	uint32_t ops[NOPMAX], cls[NCLS], excluded;
	uint32_t growfrom[12][3]; // [k: old cap == 3<<k, 11 = other][0 insert/realloc, 1 reserve/malloc, 2 reserve/realloc]
};
static Rec g_rec;

static const char* op_names[] = {"new", "newx", "newp", "newil", "newarr", "copy", "assign", "drop", "clone", "dup", "push", "comma", "pushself", "ins",
                                 "insself", "append", "appendp", "appendil", "appmany", "fillcap", "remove", "removeone", "removeoneself", "removelast",
                                 "removeif", "resize", "reserve", "clear", "sort", "sortless", "sortby", "reversed", "slice", "slice1", "concat", "or",
                                 "filter", "map", "with", "conv", "copyfrom", "copyp", "assignil", "set", "setself", "obs", "spush", "spushself", "spop",
                                 "spopn", "spopget", "sshr", "stop", "qput", "qputself", "qget", "qshr", "qshl", "unsafe_push"};
static const int NOPS = sizeof(op_names) / sizeof(op_names[0]);
static std::map<std::string, int>* g_opid;

static void prepare()
{
	if (g_text)
		return;
	g_text = new std::vector<std::string>;
	for (int v = -1; v < VMAX; v++)
		g_text->push_back(make_text(v));
	g_opid = new std::map<std::string, int>;
	for (int i = 0; i < NOPS; i++)
		(*g_opid)[op_names[i]] = i;
}

// ---------------------------------------------------------------------------------------------- the world: handles + model

typedef std::shared_ptr<std::vector<int>> Cell;

template <class T>
struct World {
	typedef Tr<T> R;
	Array<T>* h[4];
	Cell m[4];
	Cell clone_src[4]; // model-only: the cell a slot was cloned from (to count "source changed after the clone was taken")
	int opi;
	const char* opn;

	World() : opi(-1), opn("")
	{
		for (int i = 0; i < 4; i++)
			h[i] = 0;
	}
	~World()
	{
		for (int i = 0; i < 4; i++)
			drop(i);
	}
	static int kind(int s) { return s < 2 ? 0 : s - 1; }
	static Array<T>* make(int s)
	{
		switch (kind(s)) {
		case 1: return new Stack<T>();
		case 2: return new Queue<T>();
		}
		return new Array<T>();
	}
	void drop(int s)
	{
		if (!h[s])
			return;
		g_rec.cls[aliases(s) > 1 ? C_DROP_SHARED : C_DROP_LAST_HANDLE]++;
		switch (kind(s)) {
		case 1: delete static_cast<Stack<T>*>(h[s]); break;
		case 2: delete static_cast<Queue<T>*>(h[s]); break;
		default: delete h[s];
		}
		h[s] = 0;
		m[s].reset();
		clone_src[s].reset();
	}
	Array<T>& H(int s)
	{
		if (!h[s]) {
			h[s] = make(s);
			m[s] = std::make_shared<std::vector<int>>();
			g_rec.cls[C_AUTONEW]++;
		}
		return *h[s];
	}
	std::vector<int>& M(int s) { return *m[s]; }
	Stack<T>& S() { return static_cast<Stack<T>&>(H(2)); }
	Queue<T>& Q() { return static_cast<Queue<T>&>(H(3)); }
	int aliases(int s) const
	{
		int k = 0;
		for (int t = 0; t < 4; t++)
			if (h[t] && m[t] == m[s])
				k++;
		return k;
	}
	// put the array r (a fresh result) into slot d
	void install(int d, const Array<T>& r, Cell c)
	{
		Array<T>* p;
		if (kind(d) == 0)
			p = new Array<T>(r);
		else {
			p = make(d);
			*p = r;
		}
		drop(d);
		h[d] = p;
		m[d] = c;
	}
	static Cell cell(const std::vector<int>& v) { return std::make_shared<std::vector<int>>(v); }

	// known finding KF-1: would this op have to reallocate while another handle shares the block?
	bool kf1(int s, long need)
	{
		if (need > H(s).cap() && aliases(s) > 1) {
			g_rec.excluded++;
			g_rec.cls[C_EXCLUDED_KF1]++;
			return true;
		}
		return false;
	}
	bool toolong(long need)
	{
		if (need > MAXLEN) {
			g_rec.cls[C_SKIP_MAXLEN]++;
			return true;
		}
		return false;
	}
	void skip() { g_rec.cls[C_SKIP]++; }
	// a content mutation through slot s
	void mut(int s)
	{
		for (int d = 0; d < 4; d++)
			if (h[d] && clone_src[d] && clone_src[d] == m[s] && m[d] != m[s]) {
				g_rec.cls[C_CLONE_THEN_SOURCE_CHANGED]++;
				break;
			}
		if (aliases(s) > 1) {
			g_rec.flags |= F_ALIASMUT;
			g_rec.cls[C_ALIAS_MUT]++;
		}
	}
	void shrink()
	{
		if (R::counted) {
			g_rec.flags |= F_SHRINK;
			g_rec.cls[C_SHRINK_COUNTED]++;
		}
	}
	void grew(int c0, int c1, bool insert_path)
	{
		if (c1 == c0)
			return;
		g_rec.flags |= F_GROW;
		int path = insert_path ? 0 : ((size_t)c0 * sizeof(T) < 2048 ? 1 : 2);
		g_rec.cls[path == 0 ? C_GROW_INSERT : path == 1 ? C_GROW_RESERVE_MALLOC : C_GROW_RESERVE_REALLOC]++;
		int k = 11;
		for (int i = 0; i <= 10; i++)
			if (c0 == (3 << i))
				k = i;
		g_rec.growfrom[k][path]++;
	}
	void selfarg(int s, bool atcap, bool via_alias)
	{
		g_rec.flags |= F_SELFARG;
		g_rec.cls[atcap ? C_SELFARG_ATCAP : C_SELFARG_ROOM]++;
		if (via_alias)
			g_rec.cls[C_SELFARG_VIA_ALIAS]++;
	}
	void fill_default(Array<T>& A, int from, int to)
	{
		if (R::trivial) // Array(n) / resize() leave trivially constructible elements indeterminate: the harness writes them before reading
			for (int i = from; i < to; i++)
				A[i] = R::mk(-1);
	}

	// ------------------------------------------------------------------------------------ the invariant, after every op
	void check_all()
	{
		long total = 0;
		for (int s = 0; s < 4; s++) {
			if (!h[s])
				continue;
			const Array<T>& A = *h[s];
			const std::vector<int>& Ms = *m[s];
			VF_CHECK(A.length() == (int)Ms.size(), "after op #", opi, " ", opn, ": slot ", s, " length() = ", A.length(), ", reference sequence has ", Ms.size());
			VF_CHECK(A.cap() >= A.length(), "after op #", opi, " ", opn, ": slot ", s, " cap() = ", A.cap(), " < length() = ", A.length());
			VF_CHECK(A.rc() == aliases(s), "after op #", opi, " ", opn, ": slot ", s, " rc() = ", A.rc(), ", handles sharing this array: ", aliases(s));
			for (int i = 0; i < A.length(); i++)
				if (!R::same(A[i], Ms[(size_t)i]))
					VF_FAIL("after op #", opi, " ", opn, ": slot ", s, " element [", i, "] of ", A.length(), " holds value ", R::val(A[i]), ", reference sequence has ", Ms[(size_t)i]);
			bool first = true;
			for (int t = 0; t < s; t++)
				if (h[t] && m[t] == m[s])
					first = false;
			if (first)
				total += (long)Ms.size();
			if (A.length() >= 100)
				g_rec.cls[A.length() >= 1000 ? C_LEN_GE_1000 : C_LEN_GE_100]++;
		}
		if (std::is_same<T, Elem>::value) {
			VF_CHECK(Elem::bad == 0, "after op #", opi, " ", opn, ": ", Elem::bad, " element(s) used while not constructed / destroyed twice");
			VF_CHECK(Elem::live == total, "after op #", opi, " ", opn, ": ", Elem::live, " live element instances, the arrays hold ", total);
		}
	}

	template <class F>
	void il(int k, int v, F f)
	{
		switch (k % 6) {
		case 0: f({}); break;
		case 1: f({R::mk(nv(v))}); break;
		case 2: f({R::mk(nv(v)), R::mk(nv(v + 1))}); break;
		case 3: f({R::mk(nv(v)), R::mk(nv(v + 1)), R::mk(nv(v + 2))}); break;
		case 4: f({R::mk(nv(v)), R::mk(nv(v + 1)), R::mk(nv(v + 2)), R::mk(nv(v + 3))}); break;
		case 5: f({R::mk(nv(v)), R::mk(nv(v + 1)), R::mk(nv(v + 2)), R::mk(nv(v + 3)), R::mk(nv(v + 4)), R::mk(nv(v + 5)), R::mk(nv(v + 6))}); break;
		}
	}
	static int il_len(int k) { return k % 6 == 5 ? 7 : k % 6; }

	// exact-size heap buffer of k elements v, v+1, ...
	struct Buf {
		T* p;
		int n;
		Buf(int k, int v) : n(k)
		{
			p = (T*)malloc(sizeof(T) * (size_t)(k ? k : 1));
			for (int i = 0; i < k; i++)
				new (p + i) T(R::mk(nv(v + i)));
		}
		~Buf()
		{
			for (int i = 0; i < n; i++)
				p[i].~T();
			free(p);
		}
	};

	// after an in-place sort: the result must be ordered by `lessv` and be a permutation of the cell; the cell takes its order
	template <class L>
	void sorted_check(int s, L lessv, const char* what)
	{
		Array<T>& A = H(s);
		std::vector<int>& Ms = M(s);
		VF_CHECK(A.length() == (int)Ms.size(), "op #", opi, " ", what, " changed the length from ", Ms.size(), " to ", A.length());
		std::vector<int> r;
		for (int i = 0; i < A.length(); i++) {
			int v = R::val(A[i]);
			VF_CHECK(v != INVALID && R::same(A[i], v), "op #", opi, " ", what, ": element [", i, "] is damaged");
			r.push_back(v);
		}
		for (size_t i = 0; i + 1 < r.size(); i++)
			VF_CHECK(!lessv(r[i + 1], r[i]), "op #", opi, " ", what, ": result not ordered at [", i, "]: ", r[i], " then ", r[i + 1]);
		std::vector<int> x = r, y = Ms;
		std::sort(x.begin(), x.end());
		std::sort(y.begin(), y.end());
		VF_CHECK(x == y, "op #", opi, " ", what, ": result is not a permutation of the elements");
		Ms = r;
	}

	int pos(long long a, int n) { return n <= 0 ? 0 : (int)((a < 0 ? -a : a) % n); }

	// ------------------------------------------------------------------------------------ one op
	void step(int idx, const vf::Op& o)
	{
		opi = idx;
		opn = o.name.c_str();
		auto it = g_opid->find(o.name);
		if (it == g_opid->end())
			return;
		int id = it->second;
		g_rec.ops[id]++;
		const int s = pos(o.i(0), 4);
		const std::string& nm = o.name;

		if (nm == "new" || nm == "newx" || nm == "newp" || nm == "newil" || nm == "newarr") {
			int n = (int)std::min<long long>(std::max<long long>(o.i(1), 0), MAXLEN), v = nv(o.i(2));
			std::vector<int> mv;
			if (nm == "new") {
				mv.assign((size_t)n, -1);
				if (kind(s) == 0) {
					drop(s);
					h[s] = new Array<T>(n); // the (n) constructor itself, kept as the handle
					fill_default(*h[s], 0, n);
					m[s] = cell(mv);
				}
				else {
					drop(s);
					h[s] = make(s);
					h[s]->resize(n);
					fill_default(*h[s], 0, n);
					m[s] = cell(mv);
				}
			}
			else if (nm == "newx") {
				mv.assign((size_t)n, v);
				install(s, Array<T>(n, R::mk(v)), cell(mv));
			}
			else if (nm == "newp") {
				n = n % 70;
				Buf b(n, v);
				for (int i = 0; i < n; i++)
					mv.push_back(nv(v + i));
				install(s, Array<T>((const T*)b.p, n), cell(mv));
			}
			else if (nm == "newil") {
				for (int i = 0; i < il_len(n); i++)
					mv.push_back(nv(v + i));
				il(n, v, [&](std::initializer_list<T> l) { install(s, Array<T>(l), cell(mv)); });
			}
			else {
				int k = 1 + n % 6;
				for (int i = 0; i < k; i++)
					mv.push_back(nv(v + i));
				T e0 = R::mk(nv(v)), e1 = R::mk(nv(v + 1)), e2 = R::mk(nv(v + 2)), e3 = R::mk(nv(v + 3)), e4 = R::mk(nv(v + 4)), e5 = R::mk(nv(v + 5));
				switch (k) {
				case 1: install(s, asl::array(e0), cell(mv)); break;
				case 2: install(s, asl::array(e0, e1), cell(mv)); break;
				case 3: install(s, asl::array(e0, e1, e2), cell(mv)); break;
				case 4: install(s, asl::array(e0, e1, e2, e3), cell(mv)); break;
				case 5: install(s, asl::array(e0, e1, e2, e3, e4), cell(mv)); break;
				default: install(s, asl::array(e0, e1, e2, e3, e4, e5), cell(mv));
				}
			}
			return;
		}
		if (nm == "drop") {
			drop(s);
			return;
		}
		if (nm == "copy" || nm == "assign") {
			int d = pos(o.i(1), 4);
			H(s);
			Cell c = m[s];
			if (nm == "copy") { // copy-construct a new handle
				Array<T>* p;
				if (kind(d) == 0)
					p = new Array<T>(*h[s]);
				else if (d == s && kind(d) == 1)
					p = new Stack<T>(S());
				else if (d == s && kind(d) == 2)
					p = new Queue<T>(Q());
				else {
					p = make(d);
					*p = *h[s];
				}
				drop(d);
				h[d] = p;
				m[d] = c;
			}
			else {
				H(d) = *h[s];
				m[d] = c;
			}
			return;
		}
		if (nm == "clone") {
			int d = pos(o.i(1), 4);
			Array<T> r = H(s).clone();
			VF_CHECK(r.rc() == 1, "op #", opi, " clone(): result has rc() = ", r.rc());
			Cell src = m[s];
			install(d, r, cell(M(s)));
			clone_src[d] = src;
			return;
		}
		if (nm == "dup") {
			Array<T>& A = H(s);
			bool shared = aliases(s) > 1;
			Array<T>& r = A.dup();
			VF_CHECK(&r == &A, "dup() must return *this");
			if (shared)
				m[s] = cell(M(s));
			return;
		}
		if (nm == "push" || nm == "comma" || nm == "unsafe_push" || nm == "qshl" || nm == "spush" || nm == "qput") {
			int sl = nm == "spush" ? 2 : (nm == "qput" || nm == "qshl") ? 3 : s;
			int v = nv(nm == "spush" || nm == "qput" || nm == "qshl" ? o.i(0) : o.i(1));
			Array<T>& A = H(sl);
			int n = A.length();
			if (toolong(n + 1) || (nm != "unsafe_push" && kf1(sl, n + 1)))
				return;
			mut(sl);
			int c0 = A.cap();
			if (nm == "push" || nm == "unsafe_push")
				A << R::mk(v);
			else if (nm == "comma")
				(A, R::mk(v));
			else if (nm == "spush")
				S().push(R::mk(v));
			else if (nm == "qput")
				Q().put(R::mk(v));
			else
				Q() << R::mk(v);
			grew(c0, A.cap(), true);
			M(sl).push_back(v);
			return;
		}
		if (nm == "pushself" || nm == "spushself" || nm == "qputself") {
			int sl = nm == "spushself" ? 2 : nm == "qputself" ? 3 : s;
			Array<T>& A = H(sl);
			int n = A.length();
			if (n == 0)
				return skip();
			if (toolong(n + 1) || kf1(sl, n + 1))
				return;
			int i = pos(nm == "pushself" ? o.i(1) : o.i(0), n);
			mut(sl);
			int c0 = A.cap();
			if (nm == "pushself") {
				int t = pos(o.i(2), 4);
				bool via = t != sl && h[t] && m[t] == m[sl]; // the reference is taken through another handle to the same array
				selfarg(sl, n == c0, via);
				A << (via ? (*h[t])[i] : A[i]);
			}
			else if (nm == "spushself") {
				selfarg(sl, n == c0, false);
				int depth = i; // top(depth) is element n-1-depth
				i = n - 1 - depth;
				S().push(S().top(depth));
			}
			else {
				selfarg(sl, n == c0, false);
				Q().put(Q()[i]);
			}
			grew(c0, A.cap(), true);
			M(sl).push_back(M(sl)[(size_t)i]);
			return;
		}
		if (nm == "ins" || nm == "insself") {
			Array<T>& A = H(s);
			int n = A.length();
			if (toolong(n + 1) || kf1(s, n + 1))
				return;
			long long ka = o.i(1);
			int k = ka < 0 ? n : pos(ka, n + 1);
			int c0 = A.cap();
			if (nm == "ins") {
				int v = nv(o.i(2));
				mut(s);
				A.insert(ka < 0 ? -1 : k, R::mk(v));
				M(s).insert(M(s).begin() + k, v);
			}
			else {
				if (n == 0)
					return skip();
				int i = pos(o.i(2), n);
				mut(s);
				selfarg(s, n == c0, false);
				int v = M(s)[(size_t)i];
				A.insert(ka < 0 ? -1 : k, A[i]);
				M(s).insert(M(s).begin() + k, v);
			}
			grew(c0, A.cap(), true);
			return;
		}
		if (nm == "append") {
			int t = pos(o.i(1), 4);
			Array<T>& A = H(s);
			Array<T>& B = H(t);
			long need = (long)A.length() + B.length();
			if (toolong(need) || kf1(s, need))
				return;
			if (t == s) {
				g_rec.cls[C_APPEND_SELF]++;
				g_rec.flags |= F_SELFARG;
			}
			else if (m[t] == m[s]) {
				g_rec.cls[C_APPEND_ALIAS]++;
				g_rec.flags |= F_SELFARG;
			}
			mut(s);
			int c0 = A.cap();
			Array<T>& r = A.append(B);
			VF_CHECK(&r == &A, "append() must return *this");
			grew(c0, A.cap(), false);
			std::vector<int> add = M(t);
			M(s).insert(M(s).end(), add.begin(), add.end());
			return;
		}
		if (nm == "appendp" || nm == "appendil") {
			Array<T>& A = H(s);
			int n = A.length(), v = nv(o.i(2));
			int k = nm == "appendil" ? il_len((int)o.i(1)) : pos(o.i(1), 70);
			if (toolong(n + k) || kf1(s, n + k))
				return;
			int c0 = A.cap();
			mut(s);
			if (nm == "appendil") {
				il((int)o.i(1), v, [&](std::initializer_list<T> l) { A.append(l); });
				for (int i = 0; i < k; i++)
					M(s).push_back(nv(v + i));
			}
			else if (o.i(3) % 3 == 1 && n > 0 && n + (k = pos(o.i(1), n + 1)) <= c0) {
				// pointer into the receiver itself while there is room (no reallocation is needed)
				int off = pos(o.i(4), n - k + 1);
				g_rec.cls[C_APPENDP_SELF]++;
				g_rec.flags |= F_SELFARG;
				A.append(A.data() + off, k);
				for (int i = 0; i < k; i++)
					M(s).push_back(M(s)[(size_t)(off + i)]);
			}
			else {
				Buf b(k, v);
				A.append((const T*)b.p, k);
				for (int i = 0; i < k; i++)
					M(s).push_back(nv(v + i));
			}
			grew(c0, A.cap(), false);
			return;
		}
		if (nm == "appmany" || nm == "fillcap") {
			Array<T>& A = H(s);
			int v = nv(o.i(2));
			int k = nm == "appmany" ? pos(o.i(1), 800) : std::max(0, A.cap() - pos(o.i(1), 2) - A.length());
			for (int i = 0; i < k; i++) {
				int n = A.length();
				if (toolong(n + 1) || kf1(s, n + 1))
					break;
				if (i == 0)
					mut(s);
				int c0 = A.cap();
				A << R::mk(nv(v + i));
				grew(c0, A.cap(), true);
				M(s).push_back(nv(v + i));
			}
			return;
		}
		if (nm == "remove") {
			Array<T>& A = H(s);
			int n = A.length();
			int i = pos(o.i(1), n + 1), k = pos(o.i(2), n - i + 1);
			mut(s);
			if (k > 0)
				shrink();
			Array<T>& r = (k == 1 && o.i(3) % 2) ? A.remove(i) : A.remove(i, k);
			VF_CHECK(&r == &A, "remove() must return *this");
			M(s).erase(M(s).begin() + i, M(s).begin() + i + k);
			return;
		}
		if (nm == "removeone" || nm == "removeoneself") {
			Array<T>& A = H(s);
			int n = A.length();
			std::vector<int>& Ms = M(s);
			int v, i0 = 0;
			bool r;
			mut(s);
			if (nm == "removeone") {
				v = nv(o.i(1));
				i0 = pos(o.i(2), n + 1);
				r = o.i(2) == 0 ? A.removeOne(R::mk(v)) : A.removeOne(R::mk(v), i0);
			}
			else {
				if (n == 0)
					return skip();
				v = Ms[(size_t)pos(o.i(1), n)];
				g_rec.flags |= F_SELFARG;
				g_rec.cls[C_SELFARG_ROOM]++;
				r = A.removeOne(A[pos(o.i(1), n)]);
			}
			auto f = std::find(Ms.begin() + i0, Ms.end(), v);
			VF_CHECK(r == (f != Ms.end()), "op #", opi, " removeOne(", v, ", ", i0, ") returned ", r);
			if (f != Ms.end()) {
				Ms.erase(f);
				shrink();
			}
			return;
		}
		if (nm == "removelast") {
			Array<T>& A = H(s);
			mut(s);
			A.removeLast();
			if (!M(s).empty()) {
				M(s).pop_back();
				shrink();
			}
			return;
		}
		if (nm == "removeif") {
			Array<T>& A = H(s);
			int kd = (int)o.i(1);
			mut(s);
			A.removeIf([&](const T& x) { return pv(R::val(x), kd); });
			std::vector<int>& Ms = M(s);
			size_t before = Ms.size();
			Ms.erase(std::remove_if(Ms.begin(), Ms.end(), [&](int v) { return pv(v, kd); }), Ms.end());
			if (Ms.size() != before)
				shrink();
			return;
		}
		if (nm == "resize" || nm == "reserve") {
			Array<T>& A = H(s);
			int n = A.length(), c0 = A.cap();
			long x = (long)pos(o.i(2), 100000), mode = pos(o.i(1), 5), mm;
			switch (mode) {
			case 0: mm = x % 41; break;
			case 1: mm = c0 + x % 5 - 2; break;      // around the capacity
			case 2: mm = 2L * c0 + x % 5 - 2; break; // around twice the capacity (the doubling rule)
			case 3: mm = n - x % (n + 1); break;     // shrink
			default: mm = x % (MAXLEN + 1);
			}
			if (mm < 0)
				mm = 0;
			if (toolong(mm) || kf1(s, mm))
				return;
			if (nm == "reserve") {
				Array<T>& r = A.reserve((int)mm);
				VF_CHECK(&r == &A, "reserve() must return *this");
				VF_CHECK(A.cap() >= mm, "op #", opi, " reserve(", mm, ") left cap() = ", A.cap());
			}
			else {
				mut(s);
				if (mm < n)
					shrink();
				A.resize((int)mm);
				fill_default(A, n, (int)mm);
				M(s).resize((size_t)mm, -1);
			}
			grew(c0, A.cap(), false);
			return;
		}
		if (nm == "clear") {
			mut(s);
			if (H(s).length() > 0)
				shrink();
			H(s).clear();
			M(s).clear();
			return;
		}
		if (nm == "sort") {
			mut(s);
			H(s).sort();
			sorted_check(s, [](int a, int b) { return R::less(a, b); }, "sort()");
			return;
		}
		if (nm == "sortless") {
			mut(s);
			if (o.i(1) % 2 == 0) {
				H(s).sort([](const T& a, const T& b) { return b < a; });
				sorted_check(s, [](int a, int b) { return R::less(b, a); }, "sort(descending)");
			}
			else {
				H(s).sort([](const T& a, const T& b) { return R::key(a) < R::key(b); });
				sorted_check(s, [](int a, int b) { return R::keyv(a) < R::keyv(b); }, "sort(by key)");
			}
			return;
		}
		if (nm == "sortby") {
			mut(s);
			bool asc = o.i(1) % 2 == 0;
			if (o.i(1) % 4 == 0)
				H(s).sortBy([](const T& a) { return R::key(a); });
			else
				H(s).sortBy([](const T& a) { return R::key(a); }, asc);
			if (asc)
				sorted_check(s, [](int a, int b) { return R::keyv(a) < R::keyv(b); }, "sortBy(ascending)");
			else
				sorted_check(s, [](int a, int b) { return R::keyv(b) < R::keyv(a); }, "sortBy(descending)");
			return;
		}
		if (nm == "reversed") {
			int d = pos(o.i(1), 4);
			Array<T>& A = H(s);
			std::vector<int> mv(M(s).rbegin(), M(s).rend());
			install(d, A.reversed(), cell(mv));
			return;
		}
		if (nm == "slice" || nm == "slice1") {
			int d = pos(o.i(1), 4);
			Array<T>& A = H(s);
			int n = A.length();
			int i1 = pos(o.i(2), n + 1), i2 = nm == "slice1" ? n : i1 + pos(o.i(3), n - i1 + 1);
			int e2 = i2;
			if (i2 == 0) { // documented convention: 0 means "up to the end"
				e2 = n;
				if (n > 0)
					g_rec.cls[C_SLICE_ZERO_MEANS_END]++;
			}
			std::vector<int> mv(M(s).begin() + i1, M(s).begin() + e2);
			if (nm == "slice1")
				install(d, A.slice(i1), cell(mv));
			else
				install(d, A.slice(i1, i2), cell(mv));
			return;
		}
		if (nm == "concat" || nm == "or") {
			int t = pos(o.i(1), 4), d = pos(o.i(2), 4);
			Array<T>& A = H(s);
			Array<T>& B = H(t);
			if (toolong((long)A.length() + B.length()))
				return;
			std::vector<int> mv = M(s);
			mv.insert(mv.end(), M(t).begin(), M(t).end());
			if (nm == "concat")
				install(d, A.concat(B), cell(mv));
			else
				install(d, A | B, cell(mv));
			return;
		}
		if (nm == "filter" || nm == "map") {
			int d = pos(o.i(1), 4), kd = (int)o.i(2);
			Array<T>& A = H(s);
			std::vector<int> mv;
			if (nm == "filter") {
				for (int v : M(s))
					if (!pv(v, kd))
						mv.push_back(v);
				install(d, A.filter([&](const T& x) { return !pv(R::val(x), kd); }), cell(mv));
			}
			else {
				for (int v : M(s))
					mv.push_back(fv(v));
				install(d, A.map([&](const T& x) { return R::mk(fv(R::val(x))); }), cell(mv));
			}
			return;
		}
		if (nm == "with" || nm == "conv") {
			typedef typename R::K K;
			int d = pos(o.i(1), 4);
			Array<T>& A = H(s);
			const std::vector<int> mv = M(s);
			if (nm == "with") {
				Array<K> k = A.template with<K>();
				VF_CHECK(k.length() == (int)mv.size(), "with<K>() has length ", k.length(), ", source has ", mv.size());
				for (int i = 0; i < k.length(); i++)
					VF_CHECK(sameK(k[i], mv[(size_t)i]), "with<K>() element [", i, "] differs from the source element ", mv[(size_t)i]);
				return;
			}
			Array<K> k(A); // converting constructor
			VF_CHECK(k.length() == (int)mv.size(), "Array<K>(Array<T>) has length ", k.length(), ", source has ", mv.size());
			for (int i = 0; i < k.length(); i++)
				VF_CHECK(sameK(k[i], mv[(size_t)i]), "Array<K>(Array<T>) element [", i, "] differs from the source element ", mv[(size_t)i]);
			Array<T>& D = H(d);
			if (kf1(d, k.length()))
				return;
			mut(d);
			if ((int)mv.size() < D.length())
				shrink();
			int c0 = D.cap();
			D = k; // converting assignment: contents are copied into D's own block
			grew(c0, D.cap(), false);
			M(d) = mv;
			return;
		}
		if (nm == "copyfrom") {
			int t = pos(o.i(1), 4);
			Array<T>& A = H(s);
			Array<T>& B = H(t);
			if (kf1(s, B.length()))
				return;
			mut(s);
			if (B.length() < A.length())
				shrink();
			int c0 = A.cap();
			A.copy(B);
			grew(c0, A.cap(), false);
			std::vector<int> mv = M(t);
			M(s) = mv;
			return;
		}
		if (nm == "copyp" || nm == "assignil") {
			Array<T>& A = H(s);
			int v = nv(o.i(2));
			int k = nm == "assignil" ? il_len((int)o.i(1)) : pos(o.i(1), 70);
			if (kf1(s, k))
				return;
			mut(s);
			if (k < A.length())
				shrink();
			int c0 = A.cap();
			if (nm == "assignil")
				il((int)o.i(1), v, [&](std::initializer_list<T> l) { A = l; });
			else {
				Buf b(k, v);
				A.copy((const T*)b.p, k);
			}
			grew(c0, A.cap(), false);
			M(s).clear();
			for (int i = 0; i < k; i++)
				M(s).push_back(nv(v + i));
			return;
		}
		if (nm == "set" || nm == "setself") {
			Array<T>& A = H(s);
			int n = A.length();
			if (n == 0)
				return skip();
			int i = pos(o.i(1), n);
			mut(s);
			if (nm == "set") {
				A[i] = R::mk(nv(o.i(2)));
				M(s)[(size_t)i] = nv(o.i(2));
			}
			else {
				int j = pos(o.i(2), n);
				A[i] = A[j];
				M(s)[(size_t)i] = M(s)[(size_t)j];
			}
			return;
		}
		if (nm == "obs") {
			observers(s, pos(o.i(1), 4), nv(o.i(2)), o.i(3));
			return;
		}
		// ---- Stack (slot 2)
		if (nm == "spop" || nm == "spopn" || nm == "spopget" || nm == "sshr" || nm == "stop") {
			Stack<T>& st = S();
			std::vector<int>& Ms = M(2);
			int n = st.length();
			if (nm == "spopn") {
				int k = pos(o.i(0), n + 1);
				mut(2);
				if (k)
					shrink();
				st.pop(k);
				Ms.resize(Ms.size() - (size_t)k);
				return;
			}
			if (n == 0)
				return skip();
			if (nm == "stop") {
				int i = pos(o.i(0), n);
				const Stack<T>& cst = st;
				VF_CHECK(R::same(st.top(), Ms.back()) && R::same(cst.top(), Ms.back()), "op #", opi, " Stack::top() is not the last element pushed");
				VF_CHECK(R::same(st.top(i), Ms[(size_t)(n - 1 - i)]) && R::same(cst.top(i), Ms[(size_t)(n - 1 - i)]), "op #", opi, " Stack::top(", i, ") is not the element ", i, " below the top");
				VF_CHECK(&st.top() == &st[n - 1] && &st.top(i) == &st[n - 1 - i], "Stack::top() must refer to the stored element");
				return;
			}
			mut(2);
			shrink();
			int want = Ms.back();
			if (nm == "spop")
				st.pop();
			else if (nm == "spopget") {
				T x = st.popget();
				VF_CHECK(R::same(x, want), "op #", opi, " Stack::popget() returned ", R::val(x), ", top was ", want);
			}
			else {
				T x = R::mk(nv(o.i(0)));
				Stack<T>& r = st >> x;
				VF_CHECK(&r == &st, "Stack::operator>> must return *this");
				VF_CHECK(R::same(x, want), "op #", opi, " Stack >> x gave ", R::val(x), ", top was ", want);
			}
			Ms.pop_back();
			return;
		}
		// ---- Queue (slot 3)
		if (nm == "qget" || nm == "qshr") {
			Queue<T>& q = Q();
			std::vector<int>& Ms = M(3);
			if (q.length() == 0)
				return skip();
			mut(3);
			shrink();
			int want = Ms.front();
			if (nm == "qget") {
				T x = q.get();
				VF_CHECK(R::same(x, want), "op #", opi, " Queue::get() returned ", R::val(x), ", oldest element was ", want);
			}
			else {
				T x = R::mk(nv(o.i(0)));
				Queue<T>& r = q >> x;
				VF_CHECK(&r == &q, "Queue::operator>> must return *this");
				VF_CHECK(R::same(x, want), "op #", opi, " Queue >> x gave ", R::val(x), ", oldest element was ", want);
			}
			Ms.erase(Ms.begin());
			return;
		}
	}

	void observers(int s, int t, int v, long long ja)
	{
		Array<T>& A = H(s);
		const Array<T>& CA = A;
		Array<T>& B = H(t);
		const std::vector<int>& Ms = M(s);
		const std::vector<int>& Mt = M(t);
		int n = A.length();
		VF_CHECK((!CA) == Ms.empty(), "operator! disagrees with length()");
		VF_CHECK(A.data() == &A[0] && CA.data() == &CA[0] && A.ptr() == A.data() && CA.ptr() == CA.data(), "data()/ptr() must point to the first element");
		if (n > 0) {
			VF_CHECK(R::same(A.last(), Ms.back()) && R::same(CA.last(), Ms.back()), "op #", opi, " last() = ", R::val(A.last()), ", reference ", Ms.back());
			VF_CHECK(&A.last() == &A[n - 1], "last() must refer to the stored element");
		}
		// indexOf / contains with a fresh argument and with an element of the array itself
		T x = R::mk(v);
		int j = pos(ja, n + 1);
		auto f0 = std::find(Ms.begin(), Ms.end(), v);
		auto fj = std::find(Ms.begin() + j, Ms.end(), v);
		int w0 = f0 == Ms.end() ? -1 : (int)(f0 - Ms.begin()), wj = fj == Ms.end() ? -1 : (int)(fj - Ms.begin());
		VF_CHECK(CA.indexOf(x) == w0, "op #", opi, " indexOf(", v, ") = ", CA.indexOf(x), ", reference ", w0);
		VF_CHECK(CA.indexOf(x, j) == wj, "op #", opi, " indexOf(", v, ", ", j, ") = ", CA.indexOf(x, j), ", reference ", wj);
		VF_CHECK(CA.contains(x) == (w0 >= 0), "op #", opi, " contains(", v, ") = ", CA.contains(x));
		if (n > 0) {
			int i = pos(ja, n);
			int wi = (int)(std::find(Ms.begin(), Ms.end(), Ms[(size_t)i]) - Ms.begin());
			VF_CHECK(CA.indexOf(CA[i]) == wi, "op #", opi, " indexOf(a[", i, "]) = ", CA.indexOf(CA[i]), ", reference ", wi);
			VF_CHECK(CA.contains(CA[i]), "contains(a[i]) must be true");
		}
		// comparison with another slot (possibly the same array or an alias)
		VF_CHECK((CA == B) == (Ms == Mt), "op #", opi, " operator== between slots ", s, " and ", t, " = ", (CA == B), ", sequences equal: ", (Ms == Mt));
		VF_CHECK((CA != B) == (Ms != Mt), "op #", opi, " operator!= between slots ", s, " and ", t, " = ", (CA != B));
		VF_CHECK(!(CA < CA), "a < a must be false");
		if (Ms == Mt)
			VF_CHECK(!(CA < B) && !(B < CA), "a < b must be false for equal sequences");
		// enumeration
		{
			int i = 0;
			for (auto& e : A) {
				VF_CHECK(i < n && &e == &A[i], "range-for visits element ", i, " of ", n, " out of order");
				i++;
			}
			VF_CHECK(i == n, "range-for visited ", i, " of ", n, " elements");
			i = 0;
			for (typename Array<T>::Enumerator e = CA.all(); e; ++e) {
				VF_CHECK(i < n && &*e == &A[i] && ~e == i, "Enumerator visits element ", i, " of ", n, " out of order");
				i++;
			}
			VF_CHECK(i == n, "Enumerator visited ", i, " of ", n, " elements");
			i = 0;
			foreach (T& e, A) {
				VF_CHECK(i < n && R::same(e, Ms[(size_t)i]), "foreach visits a wrong element at ", i);
				i++;
			}
			VF_CHECK(i == n, "foreach visited ", i, " of ", n, " elements");
			int i1 = pos(ja, n + 1), i2 = i1 + pos(v, n - i1 + 1);
			if (i2 > 0) {
				i = i1;
				for (typename Array<T>::Enumerator e = A.slice_(i1, i2); e; ++e) {
					VF_CHECK(i < i2 && &*e == &A[i], "slice_ enumerator out of order");
					i++;
				}
				VF_CHECK(i == i2, "slice_(", i1, ",", i2, ") visited up to ", i);
			}
		}
		// join
		if (n <= 64) {
			std::string want;
			for (size_t i = 0; i < Ms.size(); i++)
				want += (i ? "," : "") + R::joined(Ms[i]);
			String js = CA.join(",");
			VF_CHECK(std::string(*js, (size_t)js.length()) == want, "op #", opi, " join(\",\") = ", vf::show(*js), ", reference ", vf::show(want));
		}
	}
};

template <class T>
static void run_history(const vf::Case& c)
{
	World<T> w;
	int idx = 0;
	for (auto& o : c.ops) {
		w.step(idx++, o);
		w.check_all();
	}
	// storage release: drop the handles one by one, checking the survivors every time
	for (int s = 0; s < 4; s++) {
		w.opi = idx++;
		w.opn = "final drop";
		w.drop(s);
		w.check_all();
	}
}

static size_t run_typed(const std::string& part, const vf::Case& c)
{
	Elem::live = 0;
	Elem::bad = 0;
	memset(&g_rec, 0, sizeof g_rec);
	size_t before = vf::allocated_bytes();
	if (part == "int")
		run_history<int>(c);
	else if (part == "elem")
		run_history<Elem>(c);
	else
		run_history<String>(c);
	size_t after = vf::allocated_bytes();
	VF_CHECK(Elem::live == 0 && Elem::bad == 0, Elem::live, " element instance(s) still alive after the last handle was dropped");
	return after - before;
}

static void run_measured(const std::string& part, const vf::Case& c)
{
	size_t d = run_typed(part, c);
	if (d != 0) // discount one-time static initialisation inside the libraries: the same history again must be balanced
		d = run_typed(part, c);
	VF_CHECK(d == 0, (long)d, " bytes still allocated after every handle was dropped (storage not released)");
}

static void run_giant(long long n);
void vf_run_case(const std::string& part, const vf::Case& c)
{
	if (!c.ops.empty() && c.ops[0].name == "giant") {
		run_giant(c.ops[0].i(0));
		return;
	}
	prepare();
	if (vf::runner().args.mode != "search") {
		// --replay: report the oracle's own message; the exit-time leak check would otherwise replace a "live instances" /
		// "storage not released" failure by a bare LeakSanitizer report of the same leak
		try {
			run_measured(part, c);
		}
		catch (const vf::Failure& f) {
			printf("FAIL %s\n", f.msg.c_str());
			fflush(stdout);
			_exit(1);
		}
		return;
	}
	run_measured(part, c);
	// statistics (outside the measured window)
	vf::Stats& st = vf::stats();
	const Rec& r = g_rec;
	if (r.flags)
		st.nt(vf::fnv(vf::serialize(c), vf::fnv(part)));
	st.excluded_known += r.excluded;
	for (int i = 0; i < NOPS; i++)
		if (r.ops[i])
			st.cls(std::string("op.") + op_names[i], r.ops[i]);
	for (int i = 0; i < NCLS; i++)
		if (r.cls[i])
			st.cls(cls_names[i], r.cls[i]);
	static const char* paths[3] = {"insert", "reserve_malloc", "reserve_realloc"};
	for (int k = 0; k < 12; k++)
		for (int p = 0; p < 3; p++)
			if (r.growfrom[k][p])
				st.cls(std::string("growfrom.") + (k == 11 ? std::string("other") : std::to_string(3 << k)) + "." + paths[p] + "." + part, r.growfrom[k][p]);
	st.cls("cases." + part);
	if (r.flags & F_ALIASMUT)
		st.cls("nt.alias_mutation." + part);
	if (r.flags & F_GROW)
		st.cls("nt.growth." + part);
	if (r.flags & F_SELFARG)
		st.cls("nt.self_argument." + part);
	if (r.flags & F_SHRINK)
		st.cls("nt.shrink_counted." + part);
}

// ---------------------------------------------------------------------------------------------- generators

static rc::Gen<vf::Op> op_gen()
{
	using namespace rc;
	return gen::exec([]() {
		auto slot = [] { return (long long)*vf::irange<int>(0, 3); };
		auto val = [] {
			int k = *vf::irange<int>(0, 9);
			return (long long)(k < 6 ? *vf::irange<int>(0, 9) : k < 9 ? *vf::irange<int>(0, VMAX - 1) : -1);
		};
		auto idx = [] { return (long long)*vf::irange<int>(0, 60); };
		auto small = [] { return (long long)*vf::irange<int>(0, 12); };
		static const std::vector<std::pair<int, const char*>> W = {
		    {3, "new"}, {2, "newx"}, {1, "newp"}, {1, "newil"}, {1, "newarr"}, {5, "copy"}, {4, "assign"}, {2, "drop"}, {3, "clone"}, {2, "dup"},
		    {6, "push"}, {1, "comma"}, {6, "pushself"}, {4, "ins"}, {6, "insself"}, {4, "append"}, {2, "appendp"}, {1, "appendil"}, {1, "appmany"},
		    {5, "fillcap"}, {4, "remove"}, {2, "removeone"}, {1, "removeoneself"}, {2, "removelast"}, {2, "removeif"}, {4, "resize"}, {3, "reserve"},
		    {1, "clear"}, {2, "sort"}, {1, "sortless"}, {1, "sortby"}, {1, "reversed"}, {2, "slice"}, {1, "slice1"}, {1, "concat"}, {1, "or"},
		    {1, "filter"}, {1, "map"}, {1, "with"}, {1, "conv"}, {2, "copyfrom"}, {1, "copyp"}, {1, "assignil"}, {3, "set"}, {1, "setself"}, {3, "obs"},
		    {3, "spush"}, {2, "spushself"}, {1, "spop"}, {1, "spopn"}, {1, "spopget"}, {1, "sshr"}, {1, "stop"}, {3, "qput"}, {2, "qputself"},
		    {1, "qget"}, {1, "qshr"}, {1, "qshl"}};
		static int total = 0;
		if (!total)
			for (auto& w : W)
				total += w.first;
		int r = *vf::irange<int>(0, total - 1);
		const char* name = W[0].second;
		for (auto& w : W) {
			if (r < w.first) {
				name = w.second;
				break;
			}
			r -= w.first;
		}
		vf::Op o(name);
		std::string n = name;
		if (n == "new" || n == "newx" || n == "newp" || n == "newil" || n == "newarr") {
			int k = *vf::irange<int>(0, 9);
			long long len = k < 5 ? *vf::irange<int>(0, 7) : k < 8 ? *gen::elementOf(std::vector<int>{3, 6, 12, 24, 48, 96, 5, 11, 13, 25}) : *vf::irange<int>(0, 200);
			o.a = {slot(), len, val()};
		}
		else if (n == "drop" || n == "dup" || n == "clear" || n == "sort" || n == "removelast")
			o.a = {slot()};
		else if (n == "copy" || n == "assign" || n == "clone" || n == "reversed" || n == "copyfrom" || n == "append" || n == "with" || n == "conv")
			o.a = {slot(), slot()};
		else if (n == "push" || n == "comma")
			o.a = {slot(), val()};
		else if (n == "pushself")
			o.a = {slot(), idx(), slot()};
		else if (n == "ins")
			o.a = {slot(), *vf::irange<int>(0, 11) == 0 ? -1LL : idx(), val()};
		else if (n == "insself")
			o.a = {slot(), *vf::irange<int>(0, 11) == 0 ? -1LL : idx(), idx()};
		else if (n == "appendp")
			o.a = {slot(), *vf::irange<int>(0, 3) ? small() : idx(), val(), small(), idx()};
		else if (n == "appendil" || n == "assignil" || n == "copyp")
			o.a = {slot(), n == "copyp" ? idx() : small(), val()};
		else if (n == "appmany")
			o.a = {slot(), (long long)*vf::boundary_len({3, 6, 12, 24, 48, 96, 192, 384, 768}, 799), val()};
		else if (n == "fillcap")
			o.a = {slot(), *vf::irange<int>(0, 3) ? 0LL : 1LL, val()};
		else if (n == "remove")
			o.a = {slot(), idx(), *vf::irange<int>(0, 2) ? small() % 3 : idx(), small()};
		else if (n == "removeone")
			o.a = {slot(), val(), *vf::irange<int>(0, 1) ? 0LL : idx()};
		else if (n == "removeoneself")
			o.a = {slot(), idx()};
		else if (n == "removeif" || n == "sortless" || n == "sortby")
			o.a = {slot(), small()};
		else if (n == "resize" || n == "reserve")
			o.a = {slot(), small(), (long long)*vf::irange<int>(0, 99999)};
		else if (n == "slice")
			o.a = {slot(), slot(), *vf::irange<int>(0, 3) ? idx() : 0LL, *vf::irange<int>(0, 4) ? idx() : 0LL};
		else if (n == "slice1")
			o.a = {slot(), slot(), idx()};
		else if (n == "concat" || n == "or")
			o.a = {slot(), slot(), slot()};
		else if (n == "filter" || n == "map")
			o.a = {slot(), slot(), small()};
		else if (n == "set")
			o.a = {slot(), idx(), val()};
		else if (n == "setself")
			o.a = {slot(), idx(), idx()};
		else if (n == "obs")
			o.a = {slot(), slot(), val(), idx()};
		else if (n == "spush" || n == "qput" || n == "qshl" || n == "sshr" || n == "qshr")
			o.a = {val()};
		else if (n == "spushself" || n == "qputself" || n == "spopn" || n == "stop")
			o.a = {idx()};
		return o;
	});
}

static rc::Gen<vf::Case> case_gen()
{
	return rc::gen::map(rc::gen::container<std::vector<vf::Op>>(op_gen()), [](const std::vector<vf::Op>& v) {
		vf::Case c;
		c.ops = v;
		return c;
	});
}

// Scripted sweep: for every capacity boundary c = 3*2^k (and c = 2^j neighbours of the 2048-byte switch) and every growing
// operation, an array with length == cap() == c is grown by exactly that operation, alone and after being shared+released.
static void boundary_sweep(const vf::Args& a, const std::string& part, size_t elsize)
{
	std::vector<int> caps;
	for (int k = 0; k <= 9; k++)
		caps.push_back(3 << k);
	int sw = (int)(2048 / elsize); // first capacity that takes the realloc path of reserve()
	for (int d = -1; d <= 1; d++)
		caps.push_back(sw + d);
	caps.push_back(5);
	caps.push_back(100);
	static const char* growers[] = {"push", "pushself", "pushself_last", "ins0", "insmid", "insself0", "insself_last_at0", "insself_mid", "appendself",
	                                "appendother", "appendp", "resize+1", "resize2x", "resize2x+1", "reserve+1", "reserve2x+1", "copyfrom", "assignil",
	                                "spushself", "qputself", "conv"};
	uint64_t n = 0;
	int job = 0;
	for (int c : caps)
		for (const char* g : growers)
			for (int shape = 0; shape < 2; shape++) {
				if ((job++ % a.workers) != a.worker)
					continue;
				std::string gs = g;
				int s = gs == "spushself" ? 2 : gs == "qputself" ? 3 : 0;
				vf::Case cs;
				cs.add(vf::Op("newx", {s, c, 7}));
				// distinct element values so that a wrong element is visible
				for (int i = 0; i < c; i += (c > 50 ? 7 : 1))
					cs.add(vf::Op("set", {s, i, 100 + i}));
				if (shape == 1) { // the array was shared and a clone exists; the second handle goes away before the growth
					cs.add(vf::Op("copy", {s, 1}));
					cs.add(vf::Op("clone", {s, s == 0 ? 2 : 0}));
					cs.add(vf::Op("drop", {1}));
				}
				if (gs == "push")
					cs.add(vf::Op("push", {s, 5}));
				else if (gs == "pushself")
					cs.add(vf::Op("pushself", {s, 0, s}));
				else if (gs == "pushself_last")
					cs.add(vf::Op("pushself", {s, c - 1, s}));
				else if (gs == "ins0")
					cs.add(vf::Op("ins", {s, 0, 5}));
				else if (gs == "insmid")
					cs.add(vf::Op("ins", {s, c / 2, 5}));
				else if (gs == "insself0")
					cs.add(vf::Op("insself", {s, c / 2, 0}));
				else if (gs == "insself_last_at0")
					cs.add(vf::Op("insself", {s, 0, c - 1}));
				else if (gs == "insself_mid")
					cs.add(vf::Op("insself", {s, 1, c / 2 + 1}));
				else if (gs == "appendself")
					cs.add(vf::Op("append", {s, s}));
				else if (gs == "appendother") {
					cs.add(vf::Op("newx", {1, 2, 9}));
					cs.add(vf::Op("append", {s, 1}));
				}
				else if (gs == "appendp")
					cs.add(vf::Op("appendp", {s, 3, 20, 0, 0}));
				else if (gs == "resize+1")
					cs.add(vf::Op("resize", {s, 1, 3}));
				else if (gs == "resize2x")
					cs.add(vf::Op("resize", {s, 2, 2}));
				else if (gs == "resize2x+1")
					cs.add(vf::Op("resize", {s, 2, 3}));
				else if (gs == "reserve+1")
					cs.add(vf::Op("reserve", {s, 1, 3}));
				else if (gs == "reserve2x+1")
					cs.add(vf::Op("reserve", {s, 2, 3}));
				else if (gs == "copyfrom") {
					cs.add(vf::Op("newx", {1, c + 1, 9}));
					cs.add(vf::Op("set", {1, c, 11}));
					cs.add(vf::Op("copyfrom", {s, 1}));
				}
				else if (gs == "assignil") {
					if (c >= 7)
						continue;
					cs.add(vf::Op("assignil", {s, 5, 30}));
				}
				else if (gs == "spushself")
					cs.add(vf::Op("spushself", {c - 1}));
				else if (gs == "qputself")
					cs.add(vf::Op("qputself", {0}));
				else if (gs == "conv") {
					cs.add(vf::Op("newx", {1, c + 2, 9}));
					cs.add(vf::Op("conv", {1, s}));
				}
				cs.add(vf::Op("obs", {s, 1, 7, 1}));
				cs.add(vf::Op("push", {s, 6}));
				cs.add(vf::Op("remove", {s, 0, 1, 0}));
				if (!vf::runner().run(part, cs))
					return;
				n++;
			}
	vf::stats().part("boundary_sweep." + part, n, false);
}


// ---------------------------------------------------------------------------------------------
// giant arrays: byte counts of 2^31 and more (element counts stay far below INT_MAX). A scripted history on Array<double> /
// Queue<double> of n elements (default 270,000,000 = 2.16 GB) with a closed-form oracle: element i of the initial array is
// f(i) = i * 0.5 + 1, every operation's effect on the index map is known, and ends plus 2000 sampled positions are compared.
static double giant_f(long long i) { return (double)i * 0.5 + 1; }
static void giant_check(const Array<double>& a, long long want_len, const std::function<double(long long)>& want, const char* what, uint64_t seed)
{
	VF_CHECK(a.length() == want_len, "giant array, ", what, ": length() = ", a.length(), " want ", want_len);
	ref::SplitMix r(seed);
	for (int k = 0; k < 2006; k++) {
		long long i = k == 0 ? 0 : k == 1 ? want_len - 1 : k == 2 ? 1 : k == 3 ? want_len - 2 : k == 4 ? want_len / 2 : k == 5 ? (1LL << 28) % want_len : (long long)(r.next() % (uint64_t)want_len);
		double got = a[(int)i], w = want(i);
		VF_CHECK(got == w, "giant array (", want_len, " doubles), ", what, ": element ", i, " is ", got, " want ", w);
	}
}
static void run_giant(long long n)
{
	if (n < 1000)
		n = 1000;
	Array<double> a((int)n);
	VF_CHECK(a.length() == n, "giant array: Array(n) has length ", a.length());
	double* d = a.data();
	for (long long i = 0; i < n; i++)
		d[i] = giant_f(i);
	giant_check(a, n, [](long long i) { return giant_f(i); }, "after construction", 1);
	a.remove(0);
	giant_check(a, n - 1, [](long long i) { return giant_f(i + 1); }, "after remove(0)", 2);
	a.insert(0, -7.0);
	giant_check(a, n, [](long long i) { return i == 0 ? -7.0 : giant_f(i); }, "after remove(0); insert(0, x)", 3);
	a.remove(3, 5);
	giant_check(a, n - 5, [](long long i) { return i == 0 ? -7.0 : i < 3 ? giant_f(i) : giant_f(i + 5); }, "after remove(3, 5)", 4);
	a << 99.0;
	giant_check(a, n - 4, [=](long long i) { return i == 0 ? -7.0 : i < 3 ? giant_f(i) : i == n - 5 ? 99.0 : giant_f(i + 5); }, "after << x", 5);
	{
		Array<double> c = a.clone();
		a[1] = 12345.0;
		giant_check(c, n - 4, [=](long long i) { return i == 0 ? -7.0 : i < 3 ? giant_f(i) : i == n - 5 ? 99.0 : giant_f(i + 5); }, "clone() after a later change of its source", 6);
		a[1] = giant_f(1);
	}
	{
		int h = (int)((n - 4) / 2);
		Array<double> sl = a.slice(h, (int)(n - 4));
		giant_check(sl, n - 4 - h, [=](long long i) { return i + h == n - 5 ? 99.0 : giant_f(i + h + 5); }, "slice(n/2, n)", 7);
	}
	a.resize((int)(n - 104));
	giant_check(a, n - 104, [=](long long i) { return i == 0 ? -7.0 : i < 3 ? giant_f(i) : giant_f(i + 5); }, "after resize(n - 100)", 8);
	{
		Queue<double> q;
		q.resize((int)n);
		double* qd = q.data();
		for (long long i = 0; i < n; i++)
			qd[i] = giant_f(i);
		double g0 = q.get(), g1 = q.get();
		VF_CHECK(g0 == giant_f(0) && g1 == giant_f(1), "giant Queue<double> (", n, " elements): two get() calls returned ", g0, " and ", g1, " want ", giant_f(0), " and ", giant_f(1));
		giant_check(q, n - 2, [](long long i) { return giant_f(i + 2); }, "Queue after two get()", 9);
	}
	vf::stats().cls(n * 8 >= (1LL << 31) ? "giant.byte_count>=2^31" : "giant.small(replay)");
}

void vf_search(const vf::Args& a)
{
	prepare();
	struct P {
		const char* part;
		size_t elsize;
	} parts[] = {{"int", sizeof(int)}, {"elem", sizeof(Elem)}, {"str", sizeof(String)}};
	if (a.worker == 0) {
		vf::Case g;
		g.add(vf::Op("giant", {270000000}));
		if (vf::runner().run("giant", g)) {
			vf::stats().nt(vf::fnv(vf::serialize(g)));
			vf::stats().part("giant.scripted_history_on_2.16GB_arrays", 1, false);
		}
	}
	for (auto& p : parts) {
		std::string part = p.part;
		[&]() { boundary_sweep(a, part, p.elsize); }();
		[&]() {
			int shown = 0;
			vf::check_cases(part, a.n(6000, 12000), a.quick() ? 120 : 400, case_gen(), [&](const vf::Case& c) {
				if (c.ops.size() >= 5 && c.ops.size() <= 9 && shown < 2) {
					shown++;
					vf::stats().sample(part + ":\n" + vf::serialize(c), 8);
				}
			});
		}();
	}
}
