// C07 -- XML: decoding is total and safe (Part A, generated documents / token soups / bounded-exhaustive small inputs,
// every truncation), encode -> decode preserves generated element trees (Part B).
//
// Case ops
//   xml   | <bytes>          Part A oracle on this byte string
//   trunc | <bytes>          Part A oracle on every prefix of the byte string (and the whole)
//   mode m                   Part B: bit0 = compact round trip, bit1 = indented round trip (default 3)
//   el | <tag>               Part B tree, as an event list: open an element (child of the current one; the first is the root)
//   at | <name> <value>      attribute of the element opened last
//   tx how | <text>          text child of the current element (how=0: XmlText node, how=1: operator<<(String))
//   up n                     close n elements (never the root)
// Any op list is a valid case (names are sanitised, depths clamped).
#include "common/vfrc.h"
#include <sys/stat.h>
#include <unistd.h>
#include "common/ref_xmltree.h"
#include "common/ref_codec.h"
#include <asl/Xml.h>

using namespace asl;
using refxml::Node;

const char* vf_harness_name() { return "C07_xml"; }

static const int MAX_DEPTH = 12;

// ---------------------------------------------------------------------------------------------
// Part A

static bool interesting_syntax(const std::string& s)
{
	return s.find('&') != std::string::npos || s.find("<!") != std::string::npos || s.find("<?") != std::string::npos;
}

static void part_a(const std::string& input, bool count_eval)
{
	if (count_eval)
		vf::stats().eval();
	refxml::DecodeInfo info;
	std::string r = refxml::decode_oracle<Xml, String>(input, info);
	VF_CHECK(r.empty(), r, " -- input ", vf::show(input, 200));
	bool nt = (!info.null && info.elements >= 2) || interesting_syntax(input);
	if (nt)
		vf::stats().nt(vf::fnv(input));
	vf::Stats& st = vf::stats();
	st.cls(info.null ? "A.null" : "A.tree");
	if (!info.null) {
		if (info.elements >= 2)
			st.cls("A.tree.ge2elements");
		if (info.roundtrip)
			st.cls("A.tree.roundtripped");
	}
}

static void part_a_trunc(const std::string& part, const std::string& doc)
{
	for (size_t k = 0; k <= doc.size(); k++) {
		std::string prefix = doc.substr(0, k);
		// a crash must leave exactly the failing prefix behind
		vf::Case one;
		one.add(vf::Op("xml", {}, {prefix}));
		vf::set_current_text(part, vf::serialize(one));
		try {
			part_a(prefix, k != doc.size());
		}
		catch (vf::Failure& f) {
			f.msg = "prefix of " + std::to_string(k) + "/" + std::to_string(doc.size()) + " bytes: " + f.msg;
			throw;
		}
	}
}

// ---------------------------------------------------------------------------------------------
// Part B

static std::string clean_name(const std::string& s)
{
	if (refxml::name_ok(s)) // any XML 1.0 Name (incl. ':' anywhere, non-ASCII letters) is used as it is
		return s;
	std::string r;
	for (unsigned char c : s) {
		bool ok = (c >= 'A' && c <= 'Z') || (c >= 'a' && c <= 'z') || c == '_' || (c >= '0' && c <= '9') || c == '.' || c == '-';
		r += ok ? (char)c : '_';
	}
	if (r.empty())
		return "e";
	if (!refxml::name_ok(r))
		r = "_" + r;
	return r;
}

static std::string clean_text(const std::string& s)
{
	std::string r;
	for (char c : s)
		if (c)
			r += c;
	return r;
}

static Node* at_path(Node& root, const std::vector<int>& path)
{
	Node* n = &root;
	for (int i : path)
		n = &n->kids[i];
	return n;
}

// events -> model tree; returns false when the case has no Part B ops
static bool build_model(const vf::Case& c, Node& root, int& mode)
{
	bool any = false, haveRoot = false;
	std::vector<int> path, last; // path of the current open element / of the element opened last
	mode = 3;
	for (auto& o : c.ops) {
		if (o.name == "mode") {
			mode = (int)(o.i(0) & 3);
			if (!mode)
				mode = 3;
			any = true;
		}
		else if (o.name == "el") {
			any = true;
			if (!haveRoot) {
				root = Node();
				root.s = clean_name(o.str(0));
				haveRoot = true;
				path.clear();
				last = path;
				continue;
			}
			Node* cur = at_path(root, path);
			Node e;
			e.s = clean_name(o.str(0));
			cur->kids.push_back(e);
			last = path;
			last.push_back((int)cur->kids.size() - 1);
			if ((int)path.size() + 2 <= MAX_DEPTH) // the new element may have children of its own
				path = last;
		}
		else if (o.name == "at") {
			any = true;
			if (haveRoot)
				at_path(root, last)->attrs[clean_name(o.str(0))] = clean_text(o.str(1));
		}
		else if (o.name == "tx") {
			any = true;
			if (haveRoot) {
				Node t;
				t.text = true;
				t.how = (int)(o.i(0) & 1);
				t.s = clean_text(o.str(0));
				at_path(root, path)->kids.push_back(t);
			}
		}
		else if (o.name == "up") {
			any = true;
			long long n = o.i(0, 1);
			if (n < 0)
				n = -n;
			while (n-- > 0 && !path.empty())
				path.pop_back();
		}
	}
	if (any && !haveRoot) {
		root = Node();
		root.s = "r";
	}
	return any;
}

// the domain of the indented clause: text only as the sole child -- drop text that has siblings
static void make_sole_text(Node& n)
{
	if (n.text)
		return;
	bool hasText = false;
	for (auto& c : n.kids)
		hasText = hasText || c.text;
	if (hasText && n.kids.size() > 1) {
		std::vector<Node> k;
		for (auto& c : n.kids)
			if (!c.text)
				k.push_back(c);
		n.kids = k;
	}
	for (auto& c : n.kids)
		make_sole_text(c);
}

static String AS(const std::string& s) { return String(s.c_str()); }

static Xml to_asl(const Node& n)
{
	Xml e(AS(n.s));
	for (auto& kv : n.attrs)
		e.setAttr(AS(kv.first), AS(kv.second));
	for (auto& k : n.kids) {
		if (k.text) {
			if (k.how == 0)
				e << XmlText(AS(k.s));
			else
				e << AS(k.s);
		}
		else
			e << to_asl(k);
	}
	return e;
}

static void round_trip(const Node& model, bool formatted)
{
	const char* mname = formatted ? "indented" : "compact";
	Xml tree = to_asl(model);
	Node want = model;
	refxml::normalise(want);
	{
		// the tree as built through the public API is the model.  (Parent links are NOT checked here: the property claims
		// them for decode's result only, and text appended with operator<<(String) carries none.)
		Node snap;
		size_t nodes = 0;
		std::string w = refxml::walk(tree, snap, nodes, refxml::count(model) + 1, 0, false);
		refxml::normalise(snap);
		std::string d = w.empty() ? refxml::diff(want, snap) : w;
		if (!d.empty()) {
			// the construction of the input (setAttr / operator<< as documented) is not what the property is about:
			// a mismatch here means the harness cannot build its domain -> infrastructure error, not a violation
			fprintf(stderr, "INFRA C07_xml: tree built through the public API is not the model: %s\n", d.c_str());
			printf("INFRA rt: tree built through the public API is not the model\n");
			exit(2);
		}
	}
	String enc = Xml::encode(tree, formatted);
	VF_CHECK((int)strlen(*enc) == enc.length(), "encode result length/terminator");
	std::string encs = refxml::to_std(enc);
	String* in = new String(encs.c_str());
	Xml back = Xml::decode(*in);
	delete in;
	VF_CHECK(!!back, mname, ": decode(encode(tree)) is the null element; encoded ", vf::show(encs, 300));
	VF_CHECK(back.parent().isnull(), mname, ": decoded root has a non-null parent()");
	Node got;
	size_t nodes = 0;
	std::string w = refxml::walk(back, got, nodes, encs.size() + 1);
	VF_CHECK(w.empty(), mname, ": decoded tree: ", w);
	refxml::normalise(got);
	std::string d = refxml::diff(want, got);
	VF_CHECK(d.empty(), mname, ": decode(encode(tree)) differs at ", d, " ; encoded ", vf::show(encs, 300));
	if (formatted) {
		// the file wrappers of the same pair: Xml::write stores the indented encoding (after an XML declaration), Xml::read
		// decodes the file's content -- same domain and same oracle as the indented clause
		static std::string path;
		if (path.empty()) {
			const char* t = getenv("VF_TMPDIR");
			std::string dir = std::string(t ? t : "build/tmp");
			mkdir(dir.c_str(), 0755);
			path = dir + "/c07_" + std::to_string(getpid()) + ".xml";
		}
		bool ok = Xml::write(tree, String(path.c_str()));
		VF_CHECK(ok, "Xml::write returned false for ", path);
		Xml fromfile = Xml::read(String(path.c_str()));
		unlink(path.c_str());
		VF_CHECK(!!fromfile, "Xml::read(Xml::write(tree)) is the null element; indented encoding ", vf::show(encs, 300));
		Node got2;
		size_t nodes2 = 0;
		std::string w2 = refxml::walk(fromfile, got2, nodes2, encs.size() + 64);
		VF_CHECK(w2.empty(), "Xml::read(Xml::write(tree)): ", w2);
		refxml::normalise(got2);
		std::string d2 = refxml::diff(want, got2);
		VF_CHECK(d2.empty(), "Xml::read(Xml::write(tree)) differs at ", d2, " ; indented encoding ", vf::show(encs, 300));
		vf::stats().cls("B.file_write_read_round_trip");
	}
}

static void part_b(const Node& model, int mode)
{
	if (mode & 1)
		round_trip(model, false);
	if (mode & 2) {
		Node m = model;
		make_sole_text(m);
		round_trip(m, true);
	}
}

void vf_run_case(const std::string& part, const vf::Case& c)
{
	for (auto& o : c.ops) {
		if (o.name == "xml")
			part_a(o.str(0), false);
		else if (o.name == "trunc")
			part_a_trunc(part, o.str(0));
	}
	Node root;
	int mode;
	if (build_model(c, root, mode))
		part_b(root, mode);
}

// ---------------------------------------------------------------------------------------------
// generators

using namespace rc;

// Names cover the XML 1.0 Name production as far as the unchanged decoder is concerned:
//   first character: ASCII letter, '_', ':' or a non-ASCII NameStartChar (2-, 3-, 4-byte UTF-8, range edges)
//   then additionally: digits, '-', '.', ':' and the non-ASCII NameChar-only characters U+B7, U+0301, U+203F
static const char NAME1[] = "abcxyzABZ_mlXqrstuvwdefghijknopCDEFGHIJKLMNOPQRSTUVWY";
static const char NAME2[] = "abcxyzABZ_019.-mlXqrstuvwdefghijknop2345678CDEFGHIJKLMNOPQRSTUVWY";
static const char* const NAME_HI_START[] = {"\xc3\xa9" /*U+E9*/, "\xce\xa0" /*U+3A0*/, "\xcf\x81" /*U+3C1*/, "\xe3\x82\xa2" /*U+30A2*/, "\xe4\xb8\xad" /*U+4E2D*/,
                                            "\xf0\x90\x80\x80" /*U+10000*/, "\xc3\x80" /*U+C0*/, "\xcb\xbf" /*U+2FF*/, "\xef\xbf\xbd" /*U+FFFD*/,
                                            "\xf3\xaf\xbf\xbf" /*U+EFFFF*/, "\xc3\xb8" /*U+F8*/, "\xed\x9f\xbf" /*U+D7FF*/};
static const char* const NAME_HI_CONT[] = {"\xc2\xb7" /*U+B7*/, "\xcc\x81" /*U+301*/, "\xe2\x80\xbf" /*U+203F*/, "\xcd\xaf" /*U+36F*/};
static const int N_HI_START = (int)(sizeof NAME_HI_START / sizeof *NAME_HI_START), N_HI_CONT = (int)(sizeof NAME_HI_CONT / sizeof *NAME_HI_CONT);

static std::string name_from_atoms(const std::vector<int>& v)
{
	std::string s;
	for (size_t i = 0; i < v.size(); i++) {
		int k = v[i] % 100, r = v[i] / 100; // v == 0 (shrink target) -> 'a'
		if (i == 0) {
			if (k >= 88)
				s += ':';
			else if (k >= 76)
				s += NAME_HI_START[r % N_HI_START];
			else
				s += NAME1[v[i] % (sizeof NAME1 - 1)];
		}
		else {
			if (k >= 93)
				s += ':';
			else if (k >= 86)
				s += NAME_HI_START[r % N_HI_START];
			else if (k >= 82)
				s += NAME_HI_CONT[r % N_HI_CONT];
			else
				s += NAME2[v[i] % (sizeof NAME2 - 1)];
		}
	}
	return s;
}

static Gen<std::string> genName()
{
	// 1..6 characters mostly, sometimes around the 15/16 inline-string boundary and the 19/20 exact-block boundary, rarely long
	auto len = gen::mapcat(vf::irange<int>(0, 19), [](int k) -> Gen<int> {
		if (k < 14)
			return vf::irange<int>(1, 6);
		if (k < 18)
			return vf::irange<int>(13, 21);
		return vf::irange<int>(22, 70);
	});
	return gen::mapcat(len, [](int n) { return gen::map(gen::container<std::vector<int>>((size_t)n, vf::irange<int>(0, 9999)), name_from_atoms); });
}

static const char* const WORDS[] = {"&amp;", "&lt;", "&gt;", "&quot;", "&apos;", "&#38;", "&#x3c;", "&#", "&#x", "&;", "<!--", "-->", "<![CDATA[", "]]>",
                                    "<?", "?>", "</", "/>", "<a>", "</a>", "=\"", "='", "\xc3\xa9", "\xe2\x82\xac", "\xf0\x9f\x98\x80", "\xff\xfe", "\x80",
                                    "  ", "\r\n", "\n\t", "&amp;amp;", "<!DOCTYPE", "&lt", "amp;"};
static const char SPECIAL[] = "&<>\"'&<>\"' \t\n\r;#=/!?-[]x";

// arbitrary NUL-free bytes, rich in & < > quotes, reference-like fragments and bytes >= 0x80
static Gen<std::string> genText(double scale)
{
	return gen::map(gen::scale(scale, gen::container<std::vector<int>>(vf::irange<int>(0, 999))), [](const std::vector<int>& v) {
		std::string s;
		for (int a : v) {
			if (a < 256)
				s += a == 0 ? 'a' : (char)a;
			else if (a < 500)
				s += SPECIAL[a % (sizeof SPECIAL - 1)];
			else if (a < 650)
				s += WORDS[a % (sizeof WORDS / sizeof *WORDS)];
			else if (a < 800)
				s += (char)(0x80 + a % 0x80);
			else
				s += (char)('a' + a % 26);
		}
		return s;
	});
}

struct Ev {
	int kind;
	std::string name;
	std::vector<std::pair<std::string, std::string>> attrs;
	std::string text;
	int n;
};

static Gen<Ev> genEv()
{
	auto attrs = gen::scale(0.12, gen::container<std::vector<std::pair<std::string, std::string>>>(gen::pair(genName(), gen::scale(8.0, genText(0.4)))));
	return gen::map(gen::tuple(vf::irange<int>(0, 99), genName(), attrs, genText(0.6), vf::irange<int>(1, 7), vf::irange<int>(0, 9)),
	                [](const std::tuple<int, std::string, std::vector<std::pair<std::string, std::string>>, std::string, int, int>& t) {
		                Ev e;
		                e.kind = std::get<0>(t);
		                e.name = std::get<1>(t);
		                e.attrs = std::get<2>(t);
		                e.text = std::get<3>(t);
		                e.n = std::get<4>(t);
		                // text that is only whitespace / empty, now and then
		                int w = std::get<5>(t);
		                if (w == 0)
			                e.text = std::string(" \t\r\n \n").substr(0, (size_t)e.n % 7);
		                else if (w == 1)
			                e.text = " " + e.text + "\n";
		                return e;
	                });
}

static Gen<std::vector<Ev>> genEvents() { return gen::container<std::vector<Ev>>(genEv()); }

static void add_el(vf::Case& c, const Ev& e, const std::string& name)
{
	c.add(vf::Op("el", {}, {name}));
	for (auto& a : e.attrs)
		c.add(vf::Op("at", {}, {a.first, a.second}));
}

static vf::Case events_to_case(const std::vector<Ev>& evs, int mode)
{
	vf::Case c;
	c.add(vf::Op("mode", {mode}));
	c.add(vf::Op("el", {}, {evs.empty() ? std::string("r") : evs[0].name}));
	if (!evs.empty())
		for (auto& a : evs[0].attrs)
			c.add(vf::Op("at", {}, {a.first, a.second}));
	for (size_t i = 1; i < evs.size(); i++) {
		const Ev& e = evs[i];
		if (e.kind < 28)
			add_el(c, e, e.name);
		else if (e.kind < 45) { // leaf with a sole text child
			add_el(c, e, e.name);
			c.add(vf::Op("tx", {e.n & 1}, {e.text}));
			c.add(vf::Op("up", {1}));
		}
		else if (e.kind < 55) { // empty leaf
			add_el(c, e, e.name);
			c.add(vf::Op("up", {1}));
		}
		else if (e.kind < 72)
			c.add(vf::Op("tx", {e.n & 1}, {e.text}));
		else if (e.kind < 92)
			c.add(vf::Op("up", {1 + e.n % 3}));
		else { // chain of nested elements
			std::string nm = e.name.empty() ? std::string("n") : e.name;
			for (int k = 0; k < 2 + e.n; k++)
				add_el(c, k == 0 ? e : Ev(), nm.substr(0, 1 + (size_t)k % nm.size()));
		}
	}
	return c;
}

static Gen<vf::Case> genTreeCase()
{
	return gen::map(gen::pair(genEvents(), vf::irange<int>(1, 3)), [](const std::pair<std::vector<Ev>, int>& p) { return events_to_case(p.first, p.second); });
}

// --- documents for Part A: a tree rendered with syntactic variety, then byte-level damage ---

struct Chooser {
	const std::vector<int>& v;
	size_t i = 0;
	explicit Chooser(const std::vector<int>& v_) : v(v_) {}
	// exhausted -> 0 (plainest rendering), so that shrinking the choice vector simplifies the document
	int operator()(int n) { return i < v.size() ? v[i++] % n : 0; }
};

static const char* const ODDREFS[] = {"&#;", "&#x;", "&;", "&", "&#1114112;", "&#x110000;", "&#99999999999;", "&#-1;", "&#xFFFFFFFF;", "&#x10FFFF;",
                                      "&#65536;", "&#x1F600;", "&#2047;", "&#2048;", "&#127;", "&#128;", "&#xffff;", "&#x10000;", "&unknown;", "&amp",
                                      "&#0;", "&#x0;", "&lt;!--", "&#x7fffffff;", "&#x80000000;", "&#-2147483648;", "&#x;x;", "&#xg;", "&# 65;", "&quot;&apos;"};
static const char* const MISC[] = {"<!-- c -->", "<!---->", "<!-- a -- b -->", "<!-- - -->", "<!--->-->", "<!-- <a> &amp; </b> -->", "<?pi data?>", "<?p?>",
                                   "<??>", "<?a b='?>'?>", "<?1x?>", "<!-x>", "<![CDATA[ <z> ]]>", "<!ENTITY e 'v'>", "<!-- unterminated", "<?unterminated",
                                   "<!DOCTYPE q [<!ELEMENT q (#PCDATA)>]>", "<!>", "<!->"};

static std::string esc_var(const std::string& s, Chooser& ch, char quote)
{
	std::string r;
	char buf[32];
	for (unsigned char c : s) {
		bool special = c == '&' || c == '<' || (quote && c == (unsigned char)quote);
		bool optional = c == '>' || c == '"' || c == '\'';
		if (special || (optional && ch(2)) || (c < 128 && ch(14) == 1)) {
			int k = ch(4);
			const char* named = c == '&' ? "&amp;" : c == '<' ? "&lt;" : c == '>' ? "&gt;" : c == '"' ? "&quot;" : c == '\'' ? "&apos;" : 0;
			if (k == 0 && named)
				r += named;
			else {
				snprintf(buf, sizeof buf, k == 2 ? "&#x%x;" : k == 3 ? "&#x%04X;" : "&#%d;", (int)c);
				r += buf;
			}
		}
		else
			r += (char)c;
		if (ch(30) == 1)
			r += ODDREFS[ch((int)(sizeof ODDREFS / sizeof *ODDREFS))];
	}
	return r;
}

static std::string ws(Chooser& ch, bool required)
{
	static const char* const W[] = {"", " ", "  ", "\n", "\t", "\r\n\t "};
	int k = ch(12);
	if (k >= 6)
		k = 0;
	if (required && k == 0)
		k = 1;
	return W[k];
}

static std::string render(const std::vector<Ev>& evs, const std::vector<int>& choices)
{
	Chooser ch(choices);
	std::string out;
	std::vector<std::string> open;
	auto misc = [&]() {
		if (ch(6) == 1)
			out += MISC[ch((int)(sizeof MISC / sizeof *MISC))];
	};
	auto start_tag = [&](const Ev& e, const std::string& name, bool selfclose) {
		out += "<" + name;
		for (auto& a : e.attrs) {
			char q = ch(2) ? '\'' : '"';
			out += ws(ch, true) + a.first + ws(ch, false) + "=" + ws(ch, false) + q + esc_var(a.second, ch, q) + q;
		}
		out += ws(ch, false);
		out += selfclose ? "/>" : ">";
		if (!selfclose)
			open.push_back(name);
	};
	auto end_tag = [&]() {
		if (open.empty())
			return;
		int k = ch(40);
		if (k == 1)
			out += "</" + open.back() + "x>";
		else if (k == 2)
			out += "</>";
		else if (k == 3)
			out += "</" + open.back() + " >";
		else if (k != 4)
			out += "</" + open.back() + ">";
		open.pop_back();
	};
	switch (ch(12)) {
	case 1: case 2: out += "<?xml version=\"1.0\"?>"; break;
	case 3: out += "<?xml version='1.0' encoding='UTF-8' standalone=\"yes\" ?>\n"; break;
	case 4: out += "<?xml version=\"1.0\""; break;
	case 5: out += "\xef\xbb\xbf"; break;
	case 6: out += "\n  "; break;
	case 7: out += "<?xml?>"; break;
	}
	switch (ch(10)) {
	case 1: out += "<!DOCTYPE r>"; break;
	case 2: out += "<!DOCTYPE r SYSTEM \"r.dtd\">\n"; break;
	case 3: out += "<!DOCTYPE r [\n<!ELEMENT r (a|b)*>\n<!ATTLIST r x CDATA #IMPLIED>\n<!ENTITY e \"v<w>\">\n]>\n"; break;
	case 4: out += "<!DOCTYPE r [ <!ELEMENT r ANY> "; break; // never closed
	}
	misc();
	start_tag(evs.empty() ? Ev() : evs[0], evs.empty() ? std::string("r") : evs[0].name, false);
	for (size_t i = 1; i < evs.size(); i++) {
		const Ev& e = evs[i];
		misc();
		if (e.kind < 28) {
			if ((int)open.size() < 40)
				start_tag(e, e.name, false);
		}
		else if (e.kind < 45) {
			start_tag(e, e.name, false);
			out += esc_var(e.text, ch, 0);
			end_tag();
		}
		else if (e.kind < 55) {
			if (ch(3) == 1) {
				start_tag(e, e.name, false);
				end_tag();
			}
			else
				start_tag(e, e.name, true);
		}
		else if (e.kind < 72)
			out += esc_var(e.text, ch, 0);
		else if (e.kind < 92) {
			for (int k = 0; k < 1 + e.n % 3 && open.size() > 1; k++)
				end_tag();
		}
		else {
			std::string nm = e.name.empty() ? std::string("n") : e.name;
			for (int k = 0; k < 2 + e.n; k++)
				start_tag(k == 0 ? e : Ev(), nm.substr(0, 1 + (size_t)k % nm.size()), false);
		}
	}
	int tail = ch(14);
	if (tail != 1)
		while (!open.empty())
			end_tag();
	if (tail == 2)
		out += "</x>";
	if (tail == 3)
		out += "</>";
	if (tail == 4)
		out += "</></>";
	if (tail == 5)
		out += "<y/>";
	if (tail == 6)
		out += "\n<!-- end -->\n";
	return out;
}

static const char* const SOUP[] = {"<a>", "</a>", "<a/>", "<b>", "</b>", "</>", "<", ">", "/", "</", "/>", "<a", "<a ", "x='1'", " y=\"2\"", "=", "'", "\"",
                                   "text", " ", "\n", "&amp;", "&lt;", "&#65;", "&#x41;", "&#;", "&#x;", "&", ";", "&#x1F600;", "&#99999999999;", "&#-1;",
                                   "<!--", "-->", "-", "--", "<!", "<!DOCTYPE a [", "<!ELEMENT a (b)>", "]>", "<?", "?>", "<?xml", "<?xml version=\"1.0\"?>",
                                   "<?p d?>", "<c x='&lt;' y=\"&amp;\">", "</c>", "<d ", "/", "<!---->", "<a:b>", "</a:b>", "\xc3\xa9", "<\xc3\xa9>", "</\xc3\xa9>",
                                   "<3>", "<a$>", "<a b>", "<a b=c>", "<a b='", "<a b=\"", "<![CDATA[", "]]>", "\xff", "<_/>", "<a.b-c/>", "\t", "\r",
                                   "<:a>", "</:a>", "<:a :b='1'/>", " :c=\"2\"", ":", "<\x7f>", "<a\xc2\xb7/>", "<-a>", "<.a>", "<1:a>"};
static const int NSOUP = (int)(sizeof SOUP / sizeof *SOUP);

static std::string damage(std::string s, const std::vector<std::tuple<int, int, int>>& muts)
{
	static const char HOT[] = "<>/&;#'\"=!-?[] x\n\xff";
	for (auto& m : muts) {
		int kind = std::get<0>(m) % 7, byte = std::get<2>(m);
		size_t pos = s.empty() ? 0 : (size_t)std::get<1>(m) % (s.size() + 1);
		size_t len = 1 + (size_t)byte % 12;
		char b = byte % 3 ? HOT[byte % (sizeof HOT - 1)] : (char)(1 + byte % 255);
		switch (kind) {
		case 0: // delete one byte
			if (pos < s.size())
				s.erase(pos, 1);
			break;
		case 1:
			s.insert(s.begin() + pos, b);
			break;
		case 2:
			if (pos < s.size())
				s[pos] = b;
			break;
		case 3: // duplicate a range
			if (pos < s.size())
				s.insert(pos, s.substr(pos, len));
			break;
		case 4: // delete a range
			if (pos < s.size())
				s.erase(pos, len);
			break;
		case 5:
			s.insert(pos, SOUP[byte % NSOUP]);
			break;
		case 6: // swap two adjacent bytes
			if (pos + 1 < s.size())
				std::swap(s[pos], s[pos + 1]);
			break;
		}
	}
	return s;
}

static Gen<vf::Case> genDocCase()
{
	auto muts = gen::scale(0.08, gen::container<std::vector<std::tuple<int, int, int>>>(gen::tuple(vf::irange<int>(0, 6), vf::irange<int>(0, 100000), vf::irange<int>(0, 100000))));
	auto choices = gen::container<std::vector<int>>(400, vf::irange<int>(0, 9999));
	return gen::map(gen::tuple(gen::scale(0.5, genEvents()), choices, muts),
	                [](const std::tuple<std::vector<Ev>, std::vector<int>, std::vector<std::tuple<int, int, int>>>& t) {
		                std::string doc = damage(render(std::get<0>(t), std::get<1>(t)), std::get<2>(t));
		                if (doc.size() > 1500)
			                doc.resize(1500);
		                vf::Case c;
		                c.add(vf::Op("trunc", {}, {doc}));
		                return c;
	                });
}

static Gen<vf::Case> genSoupCase()
{
	return gen::map(gen::container<std::vector<int>>(vf::irange<int>(0, NSOUP - 1)), [](const std::vector<int>& v) {
		std::string s;
		for (int k : v)
			s += SOUP[k];
		vf::Case c;
		c.add(vf::Op("trunc", {}, {s}));
		return c;
	});
}

// ---------------------------------------------------------------------------------------------
// classification of Part B cases

struct TreeFacts {
	int escapes = 0, hibytes = 0, texts = 0, adjacent = 0, wsonly = 0, attrs = 0, soleText = 0, elements = 0, mixed = 0;
	int tagColon1 = 0, attrColon1 = 0, nameHi1 = 0, nameColonIn = 0, nameHi = 0;
};
static void name_facts(const std::string& nm, bool attr, TreeFacts& f)
{
	if (nm.empty())
		return;
	if (nm[0] == ':')
		(attr ? f.attrColon1 : f.tagColon1)++;
	if ((unsigned char)nm[0] >= 0x80)
		f.nameHi1++;
	if (nm.find(':', 1) != std::string::npos)
		f.nameColonIn++;
	for (unsigned char c : nm)
		if (c >= 0x80) {
			f.nameHi++;
			break;
		}
}
static void facts(const Node& n, TreeFacts& f)
{
	auto scan = [&](const std::string& s) {
		for (unsigned char c : s) {
			if (c == '&' || c == '<' || c == '>' || c == '"' || c == '\'')
				f.escapes++;
			if (c >= 0x80)
				f.hibytes++;
		}
	};
	if (n.text) {
		f.texts++;
		scan(n.s);
		if (refxml::ws_only(n.s))
			f.wsonly++;
		return;
	}
	f.elements++;
	name_facts(n.s, false, f);
	for (auto& kv : n.attrs) {
		f.attrs++;
		scan(kv.second);
		name_facts(kv.first, true, f);
	}
	bool hasText = false;
	for (size_t i = 0; i < n.kids.size(); i++) {
		hasText = hasText || n.kids[i].text;
		if (i && n.kids[i].text && n.kids[i - 1].text)
			f.adjacent++;
		facts(n.kids[i], f);
	}
	if (hasText && n.kids.size() == 1)
		f.soleText++;
	if (hasText && n.kids.size() > 1)
		f.mixed++;
}

static void classify_tree(const vf::Case& c)
{
	Node root;
	int mode;
	if (!build_model(c, root, mode))
		return;
	TreeFacts f;
	facts(root, f);
	int d = refxml::depth(root);
	vf::Stats& st = vf::stats();
	if (f.escapes >= 1 && d >= 2)
		st.nt(vf::fnv(vf::serialize(c)));
	st.cls(mode == 1 ? "B.mode.compact" : mode == 2 ? "B.mode.indented" : "B.mode.both");
	st.cls(d >= 12 ? "B.depth.12" : d >= 6 ? "B.depth.6-11" : d >= 3 ? "B.depth.3-5" : "B.depth.1-2");
	if (f.escapes)
		st.cls("B.has_escaped_char");
	if (f.hibytes)
		st.cls("B.has_nonascii");
	if (f.adjacent)
		st.cls("B.has_adjacent_text");
	if (f.wsonly)
		st.cls("B.has_ws_only_text");
	if (f.attrs)
		st.cls("B.has_attrs");
	if (f.soleText)
		st.cls("B.has_sole_text_child");
	if (f.mixed)
		st.cls("B.has_mixed_content");
	if (f.elements >= 20)
		st.cls("B.elements.ge20");
	if (f.tagColon1)
		st.cls("B.name.tag_starts_with_colon");
	if (f.attrColon1)
		st.cls("B.name.attr_starts_with_colon");
	if (f.nameHi1)
		st.cls("B.name.starts_with_nonascii");
	if (f.nameColonIn)
		st.cls("B.name.colon_inside");
	if (f.nameHi)
		st.cls("B.name.has_nonascii");
	if (st.evaluations % 997 == 5)
		st.sample("B tree -> " + vf::show(refxml::to_std(Xml::encode(to_asl(root), false)), 300));
}

// ---------------------------------------------------------------------------------------------

static bool run_xml(const std::string& part, const std::string& bytes)
{
	vf::Case c;
	c.add(vf::Op("xml", {}, {bytes}));
	return vf::runner().run(part, c);
}

// all sequences of <= maxlen tokens over `alphabet`, split over the workers by index stride
static void enumerate(const std::string& part, const std::vector<std::string>& alphabet, int maxlen, const vf::Args& a)
{
	uint64_t idx = 0, ran = 0;
	size_t A = alphabet.size();
	for (int len = 0; len <= maxlen; len++) {
		uint64_t total = 1;
		for (int i = 0; i < len; i++)
			total *= A;
		for (uint64_t k = 0; k < total; k++, idx++) {
			if ((int)(idx % (uint64_t)a.workers) != a.worker)
				continue;
			std::string s;
			uint64_t v = k;
			for (int i = 0; i < len; i++) {
				s += alphabet[v % A];
				v /= A;
			}
			if (!run_xml(part, s))
				return;
			ran++;
		}
	}
	vf::stats().cls(part + ".enumerated", ran);
	vf::stats().part(part + "(len<=" + std::to_string(maxlen) + ")", ran, true);
}

void vf_search(const vf::Args& a)
{
	double t0 = vf::now();
	auto lap = [&](const char* what) { // log only, never used for a decision
		fprintf(stderr, "[time] worker %d %s %.1fs\n", a.worker, what, vf::now() - t0);
		t0 = vf::now();
	};
	// (A1) generated documents, damaged, every prefix
	[&]() {
		vf::check_cases("doc", a.n(500, 1200), a.quick() ? 40 : 60, genDocCase(), [](const vf::Case& c) {
			const std::string& d = c.ops[0].str(0);
			vf::Stats& st = vf::stats();
			st.cls(d.size() < 50 ? "A.doc.len<50" : d.size() < 200 ? "A.doc.len<200" : "A.doc.len>=200");
			if (d.find("<!DOCTYPE") != std::string::npos)
				st.cls("A.doc.doctype");
			if (d.find("<!--") != std::string::npos)
				st.cls("A.doc.comment");
			if (d.find("<?") != std::string::npos)
				st.cls("A.doc.pi_or_decl");
			if (d.find("&#") != std::string::npos)
				st.cls("A.doc.charref");
			if (d.find("</>") != std::string::npos)
				st.cls("A.doc.empty_close_tag");
			if (d.find("<:") != std::string::npos)
				st.cls("A.doc.tag_starts_with_colon");
			if (d.find(" :") != std::string::npos || d.find("\t:") != std::string::npos || d.find("\n:") != std::string::npos)
				st.cls("A.doc.attr_starts_with_colon");
			if (st.evaluations % 499 == 3)
				st.sample("A doc: " + vf::show(d, 300));
		});
	}();
	lap("doc");
	// (A2) token soups, every prefix
	[&]() {
		vf::check_cases("soup", a.n(1500, 8000), a.quick() ? 24 : 40, genSoupCase(), [](const vf::Case& c) {
			const std::string& d = c.ops[0].str(0);
			if (d.find("</>") != std::string::npos)
				vf::stats().cls("A.soup.empty_close_tag");
		});
	}();
	lap("soup");
	// (A3) bounded-exhaustive: all sequences of <= 5 (6) tags, all strings of <= 5 (6) characters
	[&]() {
		enumerate("tags", {"<a>", "</a>", "<a/>", "</>", "x", "<b>", "</b>", "&lt;", "<!--c-->", " "}, a.quick() ? 5 : 6, a);
	}();
	[&]() {
		enumerate("chars", {"<", ">", "/", "a", "!", "-", "?", "&", ";", "#", "=", "'", " ", ":"}, a.quick() ? 5 : 6, a);
	}();
	lap("enum");
	// (B) generated trees, compact and indented round trips
	[&]() { vf::check_cases("rt", a.n(2500, 3000), a.quick() ? 50 : 80, genTreeCase(), classify_tree); }();
	lap("rt");
}
