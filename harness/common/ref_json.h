// ref_json.h -- independent strict RFC 8259 parser and value tree for the C05/C06 oracles (no asl headers).
// Written from the grammar of RFC 8259 sections 2-7; audited against python's json module by lib/audit_json.py.
//
//   JSON-text = ws value ws                 ws = *( SP / HT / LF / CR )
//   value     = false / null / true / object / array / number / string
//   object    = "{" ws [ member *( ws "," ws member ) ] ws "}"     member = string ws ":" ws value
//   array     = "[" ws [ value *( ws "," ws value ) ] ws "]"
//   number    = [ "-" ] ( "0" / digit1-9 *DIGIT ) [ "." 1*DIGIT ] [ ("e"/"E") [ "-"/"+" ] 1*DIGIT ]
//   string    = %x22 *( unescaped / "\" ( %x22 / "\" / "/" / b / f / n / r / t / u 4HEXDIG ) ) %x22
//   unescaped = %x20-21 / %x23-5B / %x5D-10FFFF   (the text must be well-formed UTF-8, section 8.1)
#pragma once
#include <cstdint>
#include <cstdio>
#include <cstdlib>
#include <cstring>
#include <string>
#include <utility>
#include <vector>

namespace ref {

struct JValue {
	enum Kind { Null, Bool, Num, Str, Arr, Obj };
	Kind kind = Null;
	bool b = false;
	double num = 0;
	std::string str;                                 // decoded string (UTF-8 bytes)
	std::vector<JValue> arr;
	std::vector<std::pair<std::string, JValue>> obj; // members in document order, duplicate names kept

	static JValue mk(Kind k)
	{
		JValue v;
		v.kind = k;
		return v;
	}
	static JValue boolean(bool x)
	{
		JValue v = mk(Bool);
		v.b = x;
		return v;
	}
	static JValue number(double x)
	{
		JValue v = mk(Num);
		v.num = x;
		return v;
	}
	static JValue string(const std::string& s)
	{
		JValue v = mk(Str);
		v.str = s;
		return v;
	}
	// value of member `k` (the LAST member of that name wins, as in ECMAScript / python); 0 if absent
	const JValue* get(const std::string& k) const
	{
		for (size_t i = obj.size(); i-- > 0;)
			if (obj[i].first == k)
				return &obj[i].second;
		return 0;
	}
	// names of the members, each once, in order of first appearance
	std::vector<std::string> names() const
	{
		std::vector<std::string> r;
		for (auto& m : obj) {
			bool seen = false;
			for (auto& x : r)
				if (x == m.first)
					seen = true;
			if (!seen)
				r.push_back(m.first);
		}
		return r;
	}
};

struct JsonInfo {
	std::string error;           // why the text was rejected
	size_t error_pos = 0;
	bool too_deep = false;       // rejected only because of the max_depth limit of this implementation
	bool nul_escape = false;     // text contains \u0000
	bool lone_surrogate = false; // text contains a \uD800-\uDFFF escape that is not part of a pair
	bool duplicate_names = false;
	int depth = 0;               // maximum nesting reached
	size_t tokens = 0;           // scalars + structural characters
};

inline void utf8_append(std::string& s, uint32_t cp)
{
	if (cp < 0x80)
		s += (char)cp;
	else if (cp < 0x800) {
		s += (char)(0xC0 | (cp >> 6));
		s += (char)(0x80 | (cp & 0x3F));
	}
	else if (cp < 0x10000) {
		s += (char)(0xE0 | (cp >> 12));
		s += (char)(0x80 | ((cp >> 6) & 0x3F));
		s += (char)(0x80 | (cp & 0x3F));
	}
	else {
		s += (char)(0xF0 | (cp >> 18));
		s += (char)(0x80 | ((cp >> 12) & 0x3F));
		s += (char)(0x80 | ((cp >> 6) & 0x3F));
		s += (char)(0x80 | (cp & 0x3F));
	}
}

// length of the well-formed UTF-8 sequence starting at p (Unicode table 3-7), 0 if ill-formed
inline int utf8_seq(const unsigned char* p, const unsigned char* e)
{
	unsigned char c = *p;
	auto cont = [&](int i, unsigned char lo, unsigned char hi) { return p + i < e && p[i] >= lo && p[i] <= hi; };
	if (c < 0x80)
		return 1;
	if (c >= 0xC2 && c <= 0xDF)
		return cont(1, 0x80, 0xBF) ? 2 : 0;
	if (c == 0xE0)
		return cont(1, 0xA0, 0xBF) && cont(2, 0x80, 0xBF) ? 3 : 0;
	if ((c >= 0xE1 && c <= 0xEC) || c == 0xEE || c == 0xEF)
		return cont(1, 0x80, 0xBF) && cont(2, 0x80, 0xBF) ? 3 : 0;
	if (c == 0xED)
		return cont(1, 0x80, 0x9F) && cont(2, 0x80, 0xBF) ? 3 : 0;
	if (c == 0xF0)
		return cont(1, 0x90, 0xBF) && cont(2, 0x80, 0xBF) && cont(3, 0x80, 0xBF) ? 4 : 0;
	if (c >= 0xF1 && c <= 0xF3)
		return cont(1, 0x80, 0xBF) && cont(2, 0x80, 0xBF) && cont(3, 0x80, 0xBF) ? 4 : 0;
	if (c == 0xF4)
		return cont(1, 0x80, 0x8F) && cont(2, 0x80, 0xBF) && cont(3, 0x80, 0xBF) ? 4 : 0;
	return 0;
}

inline bool utf8_valid(const std::string& s)
{
	const unsigned char* p = (const unsigned char*)s.data();
	const unsigned char* e = p + s.size();
	while (p < e) {
		int n = utf8_seq(p, e);
		if (!n)
			return false;
		p += n;
	}
	return true;
}

class JsonParser {
public:
	// strict_utf8 = false lets bytes >= 0x80 inside strings through unchecked (byte-transparent mode)
	JsonParser(const std::string& text, JsonInfo& info, int max_depth, bool strict_utf8)
	    : p((const unsigned char*)text.data()), b(p), e(p + text.size()), info(info), max_depth(max_depth), strict(strict_utf8)
	{
	}
	bool text(JValue& out)
	{
		ws();
		if (!value(out, 1))
			return false;
		ws();
		if (p != e)
			return fail("trailing characters after the value");
		return true;
	}

private:
	const unsigned char* p;
	const unsigned char* b;
	const unsigned char* e;
	JsonInfo& info;
	int max_depth;
	bool strict;

	bool fail(const char* why)
	{
		if (info.error.empty()) {
			info.error = why;
			info.error_pos = (size_t)(p - b);
		}
		return false;
	}
	void ws()
	{
		while (p < e && (*p == 0x20 || *p == 0x09 || *p == 0x0A || *p == 0x0D))
			p++;
	}
	bool literal(const char* w)
	{
		size_t n = strlen(w);
		if ((size_t)(e - p) < n || memcmp(p, w, n) != 0)
			return fail("bad literal");
		p += n;
		return true;
	}
	static bool digit(unsigned char c) { return c >= '0' && c <= '9'; }
	bool number(JValue& out)
	{
		const unsigned char* s = p;
		if (p < e && *p == '-')
			p++;
		if (p >= e || !digit(*p))
			return fail("digit expected");
		if (*p == '0')
			p++;
		else
			while (p < e && digit(*p))
				p++;
		if (p < e && *p == '.') {
			p++;
			if (p >= e || !digit(*p))
				return fail("digit expected after the decimal point");
			while (p < e && digit(*p))
				p++;
		}
		if (p < e && (*p == 'e' || *p == 'E')) {
			p++;
			if (p < e && (*p == '+' || *p == '-'))
				p++;
			if (p >= e || !digit(*p))
				return fail("digit expected in the exponent");
			while (p < e && digit(*p))
				p++;
		}
		std::string tok((const char*)s, (size_t)(p - s));
		out = JValue::number(strtod(tok.c_str(), 0)); // correctly rounded; overflow gives +-inf, underflow 0/denormal
		return true;
	}
	static int hexv(unsigned char c)
	{
		if (c >= '0' && c <= '9')
			return c - '0';
		if (c >= 'a' && c <= 'f')
			return c - 'a' + 10;
		if (c >= 'A' && c <= 'F')
			return c - 'A' + 10;
		return -1;
	}
	bool hex4(uint32_t& v)
	{
		if (e - p < 4)
			return fail("truncated \\u escape");
		v = 0;
		for (int i = 0; i < 4; i++) {
			int h = hexv(p[i]);
			if (h < 0)
				return fail("bad hex digit in \\u escape");
			v = v * 16 + (uint32_t)h;
		}
		p += 4;
		return true;
	}
	bool string(std::string& out)
	{
		out.clear();
		p++; // opening quote
		for (;;) {
			if (p >= e)
				return fail("unterminated string");
			unsigned char c = *p;
			if (c == '"') {
				p++;
				return true;
			}
			if (c < 0x20)
				return fail("control character in string");
			if (c == '\\') {
				p++;
				if (p >= e)
					return fail("unterminated escape");
				unsigned char x = *p++;
				switch (x) {
				case '"': out += '"'; break;
				case '\\': out += '\\'; break;
				case '/': out += '/'; break;
				case 'b': out += '\b'; break;
				case 'f': out += '\f'; break;
				case 'n': out += '\n'; break;
				case 'r': out += '\r'; break;
				case 't': out += '\t'; break;
				case 'u': {
					uint32_t u;
					if (!hex4(u))
						return false;
					if (u >= 0xD800 && u <= 0xDBFF) {
						// a pair only if immediately followed by \uDC00-\uDFFF
						uint32_t lo = 0;
						if (e - p >= 6 && p[0] == '\\' && p[1] == 'u' && hexv(p[2]) >= 0 && hexv(p[3]) >= 0 && hexv(p[4]) >= 0 && hexv(p[5]) >= 0) {
							lo = (uint32_t)((hexv(p[2]) << 12) | (hexv(p[3]) << 8) | (hexv(p[4]) << 4) | hexv(p[5]));
						}
						if (lo >= 0xDC00 && lo <= 0xDFFF) {
							p += 6;
							utf8_append(out, 0x10000 + ((u - 0xD800) << 10) + (lo - 0xDC00));
						}
						else {
							info.lone_surrogate = true;
							utf8_append(out, u); // generalized UTF-8 of the lone surrogate (as python's surrogatepass)
						}
					}
					else if (u >= 0xDC00 && u <= 0xDFFF) {
						info.lone_surrogate = true;
						utf8_append(out, u);
					}
					else {
						if (u == 0)
							info.nul_escape = true;
						utf8_append(out, u);
					}
					break;
				}
				default: p--; return fail("bad escape character");
				}
				continue;
			}
			if (c < 0x80 || !strict) {
				out += (char)c;
				p++;
				continue;
			}
			int n = utf8_seq(p, e);
			if (!n)
				return fail("ill-formed UTF-8");
			out.append((const char*)p, (size_t)n);
			p += n;
		}
	}
	bool value(JValue& out, int depth)
	{
		if (p >= e)
			return fail("value expected");
		if (depth > info.depth)
			info.depth = depth;
		switch (*p) {
		case 'n': info.tokens++; out = JValue::mk(JValue::Null); return literal("null");
		case 't': info.tokens++; out = JValue::boolean(true); return literal("true");
		case 'f': info.tokens++; out = JValue::boolean(false); return literal("false");
		case '"':
			info.tokens++;
			out = JValue::mk(JValue::Str);
			return string(out.str);
		case '[': {
			if (depth > max_depth) {
				info.too_deep = true;
				return fail("nesting deeper than this reference implementation's limit");
			}
			info.tokens++;
			out = JValue::mk(JValue::Arr);
			p++;
			ws();
			if (p < e && *p == ']') {
				p++;
				info.tokens++;
				return true;
			}
			for (;;) {
				out.arr.emplace_back();
				if (!value(out.arr.back(), depth + 1))
					return false;
				ws();
				if (p >= e)
					return fail("unterminated array");
				info.tokens++;
				if (*p == ',') {
					p++;
					ws();
					continue;
				}
				if (*p == ']') {
					p++;
					return true;
				}
				return fail("',' or ']' expected");
			}
		}
		case '{': {
			if (depth > max_depth) {
				info.too_deep = true;
				return fail("nesting deeper than this reference implementation's limit");
			}
			info.tokens++;
			out = JValue::mk(JValue::Obj);
			p++;
			ws();
			if (p < e && *p == '}') {
				p++;
				info.tokens++;
				return true;
			}
			for (;;) {
				if (p >= e || *p != '"')
					return fail("member name expected");
				std::string name;
				if (!string(name))
					return false;
				info.tokens++;
				ws();
				if (p >= e || *p != ':')
					return fail("':' expected");
				p++;
				info.tokens++;
				ws();
				for (auto& m : out.obj)
					if (m.first == name)
						info.duplicate_names = true;
				out.obj.emplace_back(name, JValue());
				if (!value(out.obj.back().second, depth + 1))
					return false;
				ws();
				if (p >= e)
					return fail("unterminated object");
				info.tokens++;
				if (*p == ',') {
					p++;
					ws();
					continue;
				}
				if (*p == '}') {
					p++;
					return true;
				}
				return fail("',' or '}' expected");
			}
		}
		default:
			if (*p == '-' || digit(*p)) {
				info.tokens++;
				return number(out);
			}
			return fail("value expected");
		}
	}
};

// true iff `text` is a JSON text by RFC 8259 (well-formed UTF-8 required unless strict_utf8 is false); `out` = its value
inline bool json_parse(const std::string& text, JValue& out, JsonInfo* info = 0, int max_depth = 2000, bool strict_utf8 = true)
{
	JsonInfo local;
	JsonInfo& i = info ? *info : local;
	i = JsonInfo();
	JsonParser ps(text, i, max_depth, strict_utf8);
	return ps.text(out);
}

inline bool same_number(double a, double b)
{
	if (a == b)
		return true; // also -0 == 0, inf == inf
	return a != a && b != b;
}

// deep equality of denoted values: objects as name -> value maps with the last duplicate winning
inline bool json_equal(const JValue& a, const JValue& b)
{
	if (a.kind != b.kind)
		return false;
	switch (a.kind) {
	case JValue::Null: return true;
	case JValue::Bool: return a.b == b.b;
	case JValue::Num: return same_number(a.num, b.num);
	case JValue::Str: return a.str == b.str;
	case JValue::Arr:
		if (a.arr.size() != b.arr.size())
			return false;
		for (size_t i = 0; i < a.arr.size(); i++)
			if (!json_equal(a.arr[i], b.arr[i]))
				return false;
		return true;
	case JValue::Obj: {
		std::vector<std::string> na = a.names(), nb = b.names();
		if (na.size() != nb.size())
			return false;
		for (auto& k : na) {
			const JValue* y = b.get(k);
			if (!y || !json_equal(*a.get(k), *y))
				return false;
		}
		return true;
	}
	}
	return false;
}

inline std::string hex_of(const std::string& s)
{
	static const char* d = "0123456789abcdef";
	std::string r;
	for (unsigned char c : s) {
		r += d[c >> 4];
		r += d[c & 15];
	}
	return r;
}

// canonical one-line rendering used by the audit: n t f d<16 hex digits of the IEEE bits, zero as +0> s<hex of UTF-8>
// [a,b,...]  {<hexname>:v,...} with names sorted bytewise, last duplicate winning
inline std::string json_canon(const JValue& v)
{
	switch (v.kind) {
	case JValue::Null: return "n";
	case JValue::Bool: return v.b ? "t" : "f";
	case JValue::Num: {
		double x = v.num == 0 ? 0.0 : v.num;
		uint64_t bits;
		memcpy(&bits, &x, 8);
		char buf[24];
		snprintf(buf, sizeof buf, "d%016llx", (unsigned long long)bits);
		return buf;
	}
	case JValue::Str: return "s" + hex_of(v.str);
	case JValue::Arr: {
		std::string r = "[";
		for (size_t i = 0; i < v.arr.size(); i++)
			r += (i ? "," : "") + json_canon(v.arr[i]);
		return r + "]";
	}
	case JValue::Obj: {
		std::vector<std::string> n = v.names();
		for (size_t i = 0; i < n.size(); i++) // insertion sort, bytewise (unsigned char order == std::string order on bytes? no: compare explicitly)
			for (size_t j = i; j > 0; j--) {
				const std::string &x = n[j - 1], &y = n[j];
				size_t m = x.size() < y.size() ? x.size() : y.size();
				int c = memcmp(x.data(), y.data(), m);
				bool less = c < 0 || (c == 0 && x.size() < y.size());
				if (less || (c == 0 && x.size() == y.size()))
					break;
				std::swap(n[j - 1], n[j]);
			}
		std::string r = "{";
		for (size_t i = 0; i < n.size(); i++)
			r += (i ? "," : "") + hex_of(n[i]) + ":" + json_canon(*v.get(n[i]));
		return r + "}";
	}
	}
	return "?";
}

} // namespace ref
