// Independent RFC 6455 frame codec and handshake accept key (no asl headers).
// Written from the RFC text (section 5.2 base framing, 5.3 masking, 1.3/4.2.2 opening handshake); validated by the
// RFC's own examples (ref::ws_selfcheck) and by encode/decode round trips at every length-form boundary.
#pragma once
#include <string>
#include <vector>
#include <cstdint>
#include <cstring>
#include "ref_codec.h"

namespace ref {

struct WsFrame {
	bool fin = true;
	int rsv = 0;      // RSV1..3 as a 3-bit number
	int opcode = 1;   // 0 continuation, 1 text, 2 binary, 8 close, 9 ping, 10 pong
	bool masked = false;
	uint8_t key[4] = {0, 0, 0, 0};
	std::string payload;   // application bytes (unmasked)
	// decode results
	int form = 0;          // 0 = 7-bit length, 1 = 16-bit extended, 2 = 64-bit extended
	uint64_t declared = 0; // declared payload length
	bool minimal = true;   // the shortest of the three forms was used
	size_t header_len = 0;
};

inline int ws_min_form(uint64_t n) { return n < 126 ? 0 : n < 65536 ? 1 : 2; }

// header for a frame that declares `n` payload bytes in length form `form` (form 0 can only carry n < 126: the
// value is taken modulo 128 and clamped to 125 there, so that every argument yields a well-defined header)
inline std::string ws_header(bool fin, int rsv, int opcode, bool masked, const uint8_t key[4], uint64_t n, int form)
{
	std::string h;
	h += (char)((fin ? 0x80 : 0) | ((rsv & 7) << 4) | (opcode & 15));
	unsigned char m = masked ? 0x80 : 0;
	if (form == 0) {
		unsigned v = (unsigned)(n & 127);
		if (v > 125)
			v = 125;
		h += (char)(m | v);
	}
	else if (form == 1) {
		h += (char)(m | 126);
		h += (char)((n >> 8) & 0xff);
		h += (char)(n & 0xff);
	}
	else {
		h += (char)(m | 127);
		for (int i = 7; i >= 0; i--)
			h += (char)((n >> (8 * i)) & 0xff);
	}
	if (masked)
		for (int i = 0; i < 4; i++)
			h += (char)key[i];
	return h;
}

inline std::string ws_mask(const std::string& data, const uint8_t key[4])
{
	std::string r = data;
	for (size_t i = 0; i < r.size(); i++)
		r[i] = (char)((unsigned char)r[i] ^ key[i & 3]);
	return r;
}

// a complete frame; form -1 = minimal
inline std::string ws_encode(const WsFrame& f, int form = -1)
{
	int mf = ws_min_form(f.payload.size());
	if (form < mf)
		form = mf;
	std::string s = ws_header(f.fin, f.rsv, f.opcode, f.masked, f.key, f.payload.size(), form);
	s += f.masked ? ws_mask(f.payload, f.key) : f.payload;
	return s;
}

enum WsStatus { WS_OK, WS_INCOMPLETE };

// Decodes the frame starting at s[pos]; on WS_OK advances pos past it. `header_only`: do not require the payload
// (f.payload is then whatever part of it is present).
inline WsStatus ws_decode(const std::string& s, size_t& pos, WsFrame& f, bool header_only = false)
{
	size_t p = pos, n = s.size();
	if (n - p < 2)
		return WS_INCOMPLETE;
	unsigned char b0 = s[p], b1 = s[p + 1];
	p += 2;
	f.fin = (b0 & 0x80) != 0;
	f.rsv = (b0 >> 4) & 7;
	f.opcode = b0 & 15;
	f.masked = (b1 & 0x80) != 0;
	uint64_t len = b1 & 127;
	f.form = 0;
	if (len == 126) {
		if (n - p < 2)
			return WS_INCOMPLETE;
		len = ((uint64_t)(unsigned char)s[p] << 8) | (unsigned char)s[p + 1];
		p += 2;
		f.form = 1;
	}
	else if (len == 127) {
		if (n - p < 8)
			return WS_INCOMPLETE;
		len = 0;
		for (int i = 0; i < 8; i++)
			len = (len << 8) | (unsigned char)s[p + i];
		p += 8;
		f.form = 2;
	}
	f.declared = len;
	f.minimal = f.form == ws_min_form(len);
	memset(f.key, 0, 4);
	if (f.masked) {
		if (n - p < 4)
			return WS_INCOMPLETE;
		for (int i = 0; i < 4; i++)
			f.key[i] = (uint8_t)s[p + i];
		p += 4;
	}
	f.header_len = p - pos;
	uint64_t avail = n - p;
	if (avail < len) {
		if (!header_only)
			return WS_INCOMPLETE;
		f.payload = s.substr(p);
		if (f.masked)
			f.payload = ws_mask(f.payload, f.key);
		pos = n;
		return WS_OK;
	}
	f.payload = s.substr(p, (size_t)len);
	if (f.masked)
		f.payload = ws_mask(f.payload, f.key);
	pos = p + (size_t)len;
	return WS_OK;
}

// Sec-WebSocket-Accept for a Sec-WebSocket-Key header value (RFC 6455 section 4.2.2 step 5.4)
inline std::string ws_accept(const std::string& key)
{
	return base64(Sha1::hash(key + "258EAFA5-E914-47DA-95CA-C5AB0DC85B11"));
}

// Known answers from RFC 6455 (sections 1.3 and 5.7) + round trips at the length-form boundaries.
// Returns an empty string when everything agrees, otherwise a description of the first disagreement.
inline std::string ws_selfcheck()
{
	auto bytes = [](std::initializer_list<int> l) {
		std::string s;
		for (int v : l)
			s += (char)v;
		return s;
	};
	if (ws_accept("dGhlIHNhbXBsZSBub25jZQ==") != "s3pPLMBiTxaQ9kYGzzhZRbK+xOo=")
		return "accept key of the RFC 6455 example";
	WsFrame f;
	f.payload = "Hello";
	if (ws_encode(f) != bytes({0x81, 0x05, 0x48, 0x65, 0x6c, 0x6c, 0x6f}))
		return "unmasked text 'Hello'";
	f.masked = true;
	f.key[0] = 0x37, f.key[1] = 0xfa, f.key[2] = 0x21, f.key[3] = 0x3d;
	if (ws_encode(f) != bytes({0x81, 0x85, 0x37, 0xfa, 0x21, 0x3d, 0x7f, 0x9f, 0x4d, 0x51, 0x58}))
		return "masked text 'Hello'";
	WsFrame a;
	a.fin = false;
	a.payload = "Hel";
	WsFrame b;
	b.opcode = 0;
	b.payload = "lo";
	if (ws_encode(a) + ws_encode(b) != bytes({0x01, 0x03, 0x48, 0x65, 0x6c, 0x80, 0x02, 0x6c, 0x6f}))
		return "fragmented 'Hel' 'lo'";
	WsFrame pg;
	pg.opcode = 9;
	pg.payload = "Hello";
	if (ws_encode(pg).substr(0, 2) != bytes({0x89, 0x05}))
		return "ping header";
	WsFrame big;
	big.opcode = 2;
	big.payload = std::string(256, 'x');
	if (ws_encode(big).substr(0, 4) != bytes({0x82, 0x7e, 0x01, 0x00}))
		return "256-byte binary header";
	big.payload = std::string(65536, 'y');
	if (ws_encode(big).substr(0, 10) != bytes({0x82, 0x7f, 0, 0, 0, 0, 0, 1, 0, 0}))
		return "64 KiB binary header";
	for (size_t len : {0u, 1u, 125u, 126u, 127u, 65535u, 65536u, 65537u})
		for (int form = -1; form <= 2; form++)
			for (int m = 0; m < 2; m++) {
				WsFrame x;
				x.opcode = 2;
				x.masked = m != 0;
				x.key[0] = 0, x.key[1] = 0x80, x.key[2] = 0xff, x.key[3] = 1;
				x.payload.resize(len);
				for (size_t i = 0; i < len; i++)
					x.payload[i] = (char)(i * 7 + 3);
				std::string e = ws_encode(x, form);
				size_t pos = 0;
				WsFrame y;
				if (ws_decode(e, pos, y) != WS_OK || pos != e.size() || y.payload != x.payload || y.masked != x.masked || y.opcode != 2 || !y.fin)
					return "round trip at length " + std::to_string(len);
				int used = form < ws_min_form(len) ? ws_min_form(len) : form;
				if (y.form != used || y.minimal != (used == ws_min_form(len)))
					return "length form at length " + std::to_string(len);
				std::string cut = e.substr(0, e.size() - 1);
				pos = 0;
				if (!e.empty() && len > 0 && ws_decode(cut, pos, y) != WS_INCOMPLETE)
					return "truncated frame accepted at length " + std::to_string(len);
			}
	return "";
}

} // namespace ref
