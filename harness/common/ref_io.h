// Plain POSIX file helpers for the file-based harnesses (C16, C17, C18): the per-process temp directory and the
// "ground truth" reader/writer that never goes through asl (no asl headers in here).
#pragma once
#include <cstdint>
#include <cstdio>
#include <cstdlib>
#include <cstring>
#include <string>
#include <vector>
#include <unistd.h>
#include <fcntl.h>
#include <dirent.h>
#include <sys/stat.h>

namespace ref {

inline void rm_rf(const std::string& d)
{
	DIR* dir = opendir(d.c_str());
	if (!dir) {
		unlink(d.c_str());
		return;
	}
	while (dirent* e = readdir(dir)) {
		if (!strcmp(e->d_name, ".") || !strcmp(e->d_name, ".."))
			continue;
		std::string p = d + "/" + e->d_name;
		struct stat st;
		if (lstat(p.c_str(), &st) == 0 && S_ISDIR(st.st_mode))
			rm_rf(p);
		else
			unlink(p.c_str());
	}
	closedir(dir);
	rmdir(d.c_str());
}

// $VF_TMPDIR/<pid>/ (fallback build/tmp/<pid>/), created on first use, removed at exit
inline const std::string& tmpdir()
{
	static std::string* d = 0;
	if (!d) {
		const char* t = getenv("VF_TMPDIR");
		std::string base = t && *t ? t : "build/tmp";
		if (!(t && *t))
			mkdir("build", 0755);
		mkdir(base.c_str(), 0755);
		d = new std::string(base + "/" + std::to_string((long)getpid()));
		mkdir(d->c_str(), 0755);
		atexit([]() { rm_rf(tmpdir()); });
	}
	return *d;
}

// whole file through open/read; false if it cannot be opened
inline bool slurp(const std::string& path, std::string& out)
{
	out.clear();
	int fd = open(path.c_str(), O_RDONLY);
	if (fd < 0)
		return false;
	char buf[65536];
	for (;;) {
		ssize_t n = read(fd, buf, sizeof buf);
		if (n < 0) {
			close(fd);
			return false;
		}
		if (n == 0)
			break;
		out.append(buf, (size_t)n);
	}
	close(fd);
	return true;
}

inline bool spit(const std::string& path, const std::string& data)
{
	int fd = open(path.c_str(), O_WRONLY | O_CREAT | O_TRUNC, 0644);
	if (fd < 0)
		return false;
	size_t off = 0;
	while (off < data.size()) {
		ssize_t n = write(fd, data.data() + off, data.size() - off);
		if (n <= 0) {
			close(fd);
			return false;
		}
		off += (size_t)n;
	}
	close(fd);
	return true;
}

inline bool exists(const std::string& path)
{
	struct stat st;
	return stat(path.c_str(), &st) == 0;
}

// deterministic content generator (SplitMix64); the seed is part of the case, so a case text denotes one content
struct Mix {
	uint64_t s;
	explicit Mix(uint64_t seed) : s(seed) {}
	uint64_t next()
	{
		uint64_t z = (s += 0x9e3779b97f4a7c15ULL);
		z = (z ^ (z >> 30)) * 0xbf58476d1ce4e5b9ULL;
		z = (z ^ (z >> 27)) * 0x94d049bb133111ebULL;
		return z ^ (z >> 31);
	}
	uint64_t below(uint64_t n) { return n ? next() % n : 0; }
};

} // namespace ref
