// ref_civil.h -- independent proleptic-Gregorian calendar arithmetic for the C19 oracle (no asl headers).
//
// days_from_civil / civil_from_days work on a March-based year inside 400-year eras (146097 days), which is
// structurally different from asl's 400/100/4-year block walk and cumulative month table.  A second,
// even simpler implementation (an odometer that steps one day at a time using only the leap rule and the
// month lengths) and digests computed with python's datetime audit them at every start of the harness:
//
//   import datetime
//   M=(1<<64)-1; h=1469598103934665603
//   for o in range(1, datetime.date(9999,12,31).toordinal()+1):
//       d=datetime.date.fromordinal(o)
//       v=(d.year*10000+d.month*100+d.day)*8+d.isoweekday()%7
//       h=((h^v)*1099511628211)&M
//   print(h)                                   # 8980267773574869156  (3,652,059 days, day numbers -719162..2932896)
//   h=1469598103934665603; x=12345
//   lo=-719162*86400; span=3652059*86400; ep=datetime.datetime(1970,1,1)
//   for i in range(10000):
//       x=(x*6364136223846793005+1442695040888963407)&M
//       t=lo+(x>>11)%span; d=ep+datetime.timedelta(seconds=t)
//       v=((((((d.year*13+d.month)*32+d.day)*24+d.hour)*60+d.minute)*60+d.second)*8+d.isoweekday()%7
//       h=((h^v)*1099511628211)&M
//   print(h)                                   # 2816707391761168844
#pragma once
#include <cstdint>
#include <cstdio>
#include <string>

namespace ref {

static const int64_t CIVIL_DAY_MIN = -719162; // 0001-01-01 as days since 1970-01-01
static const int64_t CIVIL_DAY_MAX = 2932896; // 9999-12-31
static const int64_t CIVIL_NDAYS = CIVIL_DAY_MAX - CIVIL_DAY_MIN + 1; // 3,652,059

inline bool is_leap(int64_t y) { return y % 4 == 0 && (y % 100 != 0 || y % 400 == 0); }
inline int days_in_month(int64_t y, int m)
{
	static const int n[12] = {31, 28, 31, 30, 31, 30, 31, 31, 30, 31, 30, 31};
	return m == 2 && is_leap(y) ? 29 : n[m - 1];
}

inline int64_t floordiv(int64_t a, int64_t b) { return a / b - ((a % b != 0) && ((a < 0) != (b < 0))); }
inline int64_t floormod(int64_t a, int64_t b) { return a - floordiv(a, b) * b; }

// days since 1970-01-01 of the civil date y-m-d (any year)
inline int64_t days_from_civil(int64_t y, int m, int d)
{
	y -= m <= 2;
	const int64_t era = floordiv(y, 400);
	const int64_t yoe = y - era * 400;                              // [0, 399]
	const int64_t doy = (153 * (m > 2 ? m - 3 : m + 9) + 2) / 5 + d - 1; // [0, 365], year starts on March 1
	const int64_t doe = yoe * 365 + yoe / 4 - yoe / 100 + doy;     // [0, 146096]
	return era * 146097 + doe - 719468;
}

struct Civil {
	int64_t year;
	int month, day;
};

inline Civil civil_from_days(int64_t z)
{
	z += 719468;
	const int64_t era = floordiv(z, 146097);
	const int64_t doe = z - era * 146097;                                         // [0, 146096]
	const int64_t yoe = (doe - doe / 1460 + doe / 36524 - doe / 146096) / 365; // [0, 399]
	const int64_t y = yoe + era * 400;
	const int64_t doy = doe - (365 * yoe + yoe / 4 - yoe / 100); // [0, 365]
	const int64_t mp = (5 * doy + 2) / 153;                      // [0, 11]
	const int d = (int)(doy - (153 * mp + 2) / 5 + 1);
	const int m = (int)(mp < 10 ? mp + 3 : mp - 9);
	return Civil{y + (m <= 2), m, d};
}

// 0 = Sunday ... 6 = Saturday (1970-01-01 was a Thursday)
inline int weekday_from_days(int64_t z) { return (int)floormod(z + 4, 7); }

struct Fields {
	int64_t year;
	int month, day, hours, minutes, seconds, weekDay;
	bool operator==(const Fields& o) const
	{
		return year == o.year && month == o.month && day == o.day && hours == o.hours && minutes == o.minutes && seconds == o.seconds &&
		       weekDay == o.weekDay;
	}
};

// fields of the instant t (whole seconds since 1970-01-01T00:00:00Z, no leap seconds)
inline Fields fields_from_seconds(int64_t t)
{
	int64_t z = floordiv(t, 86400), s = t - z * 86400;
	Civil c = civil_from_days(z);
	return Fields{c.year, c.month, c.day, (int)(s / 3600), (int)(s / 60 % 60), (int)(s % 60), weekday_from_days(z)};
}

inline int64_t seconds_from_fields(int64_t y, int m, int d, int h, int mi, int s)
{
	return days_from_civil(y, m, d) * 86400 + h * 3600 + mi * 60 + s;
}

inline std::string fields_str(const Fields& f)
{
	char b[80];
	snprintf(b, sizeof b, "%04lld-%02d-%02d %02d:%02d:%02d wd%d", (long long)f.year, f.month, f.day, f.hours, f.minutes, f.seconds, f.weekDay);
	return b;
}

// Audit: odometer == civil_from_days == inverse of days_from_civil for every day of years 1..9999, and the
// digests equal the ones computed with python's datetime (snippet above).
inline bool civil_audit_ok(std::string* why)
{
	const uint64_t P = 1099511628211ULL;
	uint64_t h = 1469598103934665603ULL;
	int64_t y = 1;
	int m = 1, d = 1, wd = 1; // 0001-01-01 is a Monday
	for (int64_t z = CIVIL_DAY_MIN; z <= CIVIL_DAY_MAX; z++) {
		Civil c = civil_from_days(z);
		if (c.year != y || c.month != m || c.day != d || weekday_from_days(z) != wd || days_from_civil(y, m, d) != z) {
			*why = "civil_from_days / days_from_civil disagree with the day-by-day odometer at day " + std::to_string(z);
			return false;
		}
		uint64_t v = (uint64_t)((y * 10000 + m * 100 + d) * 8 + wd);
		h = (h ^ v) * P;
		wd = (wd + 1) % 7;
		if (++d > days_in_month(y, m)) {
			d = 1;
			if (++m > 12) {
				m = 1;
				y++;
			}
		}
	}
	if (y != 10000 || m != 1 || d != 1) {
		*why = "odometer did not end at 10000-01-01";
		return false;
	}
	if (h != 8980267773574869156ULL) {
		*why = "digest of all (y,m,d,weekday) of years 1..9999 differs from python datetime's: " + std::to_string(h);
		return false;
	}
	h = 1469598103934665603ULL;
	uint64_t x = 12345;
	const int64_t lo = CIVIL_DAY_MIN * 86400, span = CIVIL_NDAYS * 86400;
	for (int i = 0; i < 10000; i++) {
		x = x * 6364136223846793005ULL + 1442695040888963407ULL;
		int64_t t = lo + (int64_t)((x >> 11) % (uint64_t)span);
		Fields f = fields_from_seconds(t);
		if (seconds_from_fields(f.year, f.month, f.day, f.hours, f.minutes, f.seconds) != t) {
			*why = "seconds_from_fields is not the inverse of fields_from_seconds at " + std::to_string(t);
			return false;
		}
		uint64_t v = (uint64_t)(((((((f.year * 13 + f.month) * 32 + f.day) * 24 + f.hours) * 60 + f.minutes) * 60 + f.seconds) * 8) + f.weekDay);
		h = (h ^ v) * P;
	}
	if (h != 2816707391761168844ULL) {
		*why = "digest of 10000 sampled instants differs from python datetime's: " + std::to_string(h);
		return false;
	}
	return true;
}

} // namespace ref
