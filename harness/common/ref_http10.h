// ref_http.h -- minimal, independent HTTP/1.x message writer / reader, a raw TCP client connection and a tiny
// threaded server on plain POSIX sockets.  No asl headers: this is the reference side of the C10 (client <-> server)
// checks.  It implements only what the checks need (RFC 9112 framing: Content-Length and chunked bodies, case-
// insensitive header lookup, percent-encoding) and is deliberately strict where the peer is the library under test.
#pragma once
#include <cstdint>
#include <cstdio>
#include <cstring>
#include <cerrno>
#include <string>
#include <vector>
#include <functional>
#include <thread>
#include <atomic>
#include <mutex>
#include <utility>
#include <unistd.h>
#include <time.h>
#include <sched.h>
#include <sys/types.h>
#include <sys/select.h>
#include <sys/socket.h>
#include <netinet/in.h>
#include <netinet/tcp.h>
#include <arpa/inet.h>

namespace ref {

inline double mono_s()
{
	timespec t;
	clock_gettime(CLOCK_MONOTONIC, &t);
	return t.tv_sec + 1e-9 * t.tv_nsec;
}

// ------------------------------------------------------------------------------------------------ percent-encoding

inline bool http_unreserved(unsigned char c)
{
	return (c >= 'a' && c <= 'z') || (c >= 'A' && c <= 'Z') || (c >= '0' && c <= '9') || c == '-' || c == '.' || c == '_' || c == '~';
}

// Encodes every byte that is not unreserved and not in `keep`.  `vary` (may be 0) adds legal variation: some
// unreserved bytes are encoded as well and the hex digits use either case, decided by the bits of *vary.
inline std::string http_pct_encode(const std::string& s, const char* keep, uint64_t* vary = 0)
{
	static const char* U = "0123456789ABCDEF";
	static const char* L = "0123456789abcdef";
	std::string r;
	for (unsigned char c : s) {
		bool plain = http_unreserved(c) || (c != 0 && keep && strchr(keep, c));
		uint64_t bits = 0;
		if (vary) {
			*vary = *vary * 6364136223846793005ULL + 1442695040888963407ULL;
			bits = *vary >> 33;
			if (plain && (bits & 15) == 0)
				plain = false;
		}
		if (plain)
			r += (char)c;
		else {
			const char* d = (bits & 16) ? L : U;
			r += '%';
			r += d[c >> 4];
			r += d[c & 15];
		}
	}
	return r;
}

inline std::string http_lower(std::string s)
{
	for (auto& c : s)
		if (c >= 'A' && c <= 'Z')
			c = (char)(c + 32);
	return s;
}

// ------------------------------------------------------------------------------------------------ messages

typedef std::vector<std::pair<std::string, std::string>> HeaderList;

struct Message {
	std::string start;  // request line or status line, without CRLF
	HeaderList headers; // in wire order, values with optional whitespace around them removed
	std::string body;
	bool chunked = false, has_length = false;
	bool ended_by_close = false; // chunked body without a last-chunk: the peer ended the connection at a chunk boundary

	const std::string* find(const std::string& name) const
	{
		std::string n = http_lower(name);
		for (auto& h : headers)
			if (http_lower(h.first) == n)
				return &h.second;
		return 0;
	}
	int count(const std::string& name) const
	{
		std::string n = http_lower(name);
		int k = 0;
		for (auto& h : headers)
			if (http_lower(h.first) == n)
				k++;
		return k;
	}
	// request line pieces
	std::string method() const { return start.substr(0, start.find(' ')); }
	std::string target() const
	{
		size_t a = start.find(' ');
		if (a == std::string::npos)
			return "";
		size_t b = start.find(' ', a + 1);
		return b == std::string::npos ? start.substr(a + 1) : start.substr(a + 1, b - a - 1);
	}
	std::string version_of_request() const
	{
		size_t b = start.rfind(' ');
		return b == std::string::npos ? "" : start.substr(b + 1);
	}
	// status line: HTTP/1.x SP 3DIGIT SP reason ; -1 if malformed
	int status() const
	{
		if (start.size() < 12 || start.compare(0, 7, "HTTP/1.") != 0 || start[8] != ' ')
			return -1;
		for (int i = 9; i < 12; i++)
			if (start[i] < '0' || start[i] > '9')
				return -1;
		if (start.size() > 12 && start[12] != ' ')
			return -1;
		return (start[9] - '0') * 100 + (start[10] - '0') * 10 + (start[11] - '0');
	}
};

// Serialises a message.  chunked: the body is cut into chunks of the given sizes (cycled; 0 entries are skipped; if
// the list is empty one chunk), each preceded by its size in hex (upper or lower case) and followed by CRLF, and
// terminated by a zero chunk.  Otherwise a Content-Length header is added (unless add_length is false).
// head_len receives the length of the head (up to and including the empty line).
inline std::string http_build(const std::string& start, const HeaderList& headers, const std::string& body, bool chunked,
                              const std::vector<size_t>& chunks, bool upper_hex, bool add_length, size_t* head_len = 0,
                              std::vector<size_t>* chunk_line_offsets = 0)
{
	std::string w = start + "\r\n";
	for (auto& h : headers)
		w += h.first + ": " + h.second + "\r\n";
	if (chunked)
		w += "Transfer-Encoding: chunked\r\n";
	else if (add_length)
		w += "Content-Length: " + std::to_string(body.size()) + "\r\n";
	w += "\r\n";
	if (head_len)
		*head_len = w.size();
	if (!chunked) {
		w += body;
		return w;
	}
	size_t pos = 0, k = 0;
	bool usable = false;
	for (size_t c : chunks)
		if (c > 0)
			usable = true;
	while (pos < body.size()) {
		size_t n = body.size() - pos;
		if (usable) {
			size_t c = chunks[k++ % chunks.size()];
			if (c == 0)
				continue;
			if (c < n)
				n = c;
		}
		char b[32];
		snprintf(b, sizeof b, upper_hex ? "%zX\r\n" : "%zx\r\n", n);
		if (chunk_line_offsets)
			chunk_line_offsets->push_back(w.size());
		w += b;
		w.append(body, pos, n);
		w += "\r\n";
		pos += n;
	}
	if (chunk_line_offsets)
		chunk_line_offsets->push_back(w.size());
	w += "0\r\n\r\n";
	return w;
}

// ------------------------------------------------------------------------------------------------ connection

struct Conn {
	int fd = -1;
	std::string buf; // received, not yet consumed
	size_t pos = 0;
	double max_gap = 0; // longest time between two consecutive send() calls of one send_frags (load diagnostics)
	size_t received = 0;
	bool eof = false;

	Conn() {}
	Conn(const Conn&) = delete;
	Conn& operator=(const Conn&) = delete;
	~Conn() { close(); }

	void set_timeouts(int seconds)
	{
		timeval tv;
		tv.tv_sec = seconds;
		tv.tv_usec = 0;
		setsockopt(fd, SOL_SOCKET, SO_RCVTIMEO, &tv, sizeof tv);
		setsockopt(fd, SOL_SOCKET, SO_SNDTIMEO, &tv, sizeof tv);
	}
	void adopt(int f, int timeout_s)
	{
		close();
		fd = f;
		buf.clear();
		pos = 0;
		eof = false;
		received = 0;
		int one = 1;
		setsockopt(fd, IPPROTO_TCP, TCP_NODELAY, &one, sizeof one);
		set_timeouts(timeout_s);
	}
	// rcvbuf > 0: a small receive buffer (set before connecting) makes the peer's sends complete partially
	bool connect_to(bool v6, int port, int rcvbuf, int timeout_s, std::string* err)
	{
		close();
		int f = ::socket(v6 ? AF_INET6 : AF_INET, SOCK_STREAM, 0);
		if (f < 0) {
			if (err)
				*err = std::string("socket: ") + strerror(errno);
			return false;
		}
		if (rcvbuf > 0)
			setsockopt(f, SOL_SOCKET, SO_RCVBUF, &rcvbuf, sizeof rcvbuf);
		int r;
		if (v6) {
			sockaddr_in6 a;
			memset(&a, 0, sizeof a);
			a.sin6_family = AF_INET6;
			a.sin6_port = htons((uint16_t)port);
			a.sin6_addr = in6addr_loopback;
			r = ::connect(f, (sockaddr*)&a, sizeof a);
		}
		else {
			sockaddr_in a;
			memset(&a, 0, sizeof a);
			a.sin_family = AF_INET;
			a.sin_port = htons((uint16_t)port);
			a.sin_addr.s_addr = htonl(INADDR_LOOPBACK);
			r = ::connect(f, (sockaddr*)&a, sizeof a);
		}
		if (r != 0) {
			if (err)
				*err = std::string("connect: ") + strerror(errno);
			::close(f);
			return false;
		}
		adopt(f, timeout_s);
		return true;
	}
	void close()
	{
		if (fd >= 0)
			::close(fd);
		fd = -1;
	}
	bool send_all(const char* p, size_t n)
	{
		while (n > 0) {
			ssize_t k = ::send(fd, p, n, MSG_NOSIGNAL);
			if (k < 0) {
				if (errno == EINTR)
					continue;
				return false;
			}
			p += k;
			n -= (size_t)k;
		}
		return true;
	}
	// Sends `wire` as the fragments delimited by the sorted offsets in `cuts`, one send() per fragment (TCP_NODELAY is
	// on).  pace: 0 back to back, 1 sched_yield() between fragments, 2 a short sleep (50-300 us, from paceseed).
	bool send_frags(const std::string& wire, const std::vector<size_t>& cuts, int pace, uint64_t paceseed)
	{
		size_t at = 0, k = 0;
		double last = mono_s();
		max_gap = 0;
		while (at < wire.size() || (at == 0 && wire.empty())) {
			size_t end = wire.size();
			while (k < cuts.size() && cuts[k] <= at)
				k++;
			if (k < cuts.size() && cuts[k] < end)
				end = cuts[k];
			if (!send_all(wire.data() + at, end - at))
				return false;
			double t = mono_s();
			if (t - last > max_gap)
				max_gap = t - last;
			last = t;
			at = end;
			if (at >= wire.size())
				break;
			if (pace == 1)
				sched_yield();
			else if (pace == 2) {
				paceseed = paceseed * 6364136223846793005ULL + 1442695040888963407ULL;
				usleep(50 + (unsigned)((paceseed >> 40) % 250));
			}
		}
		return true;
	}

	// ---- reading
	bool fill()
	{
		if (eof || fd < 0)
			return false;
		if (pos > (1u << 16) && pos * 2 > buf.size()) {
			buf.erase(0, pos);
			pos = 0;
		}
		char tmp[65536];
		ssize_t k;
		do
			k = ::recv(fd, tmp, sizeof tmp, 0);
		while (k < 0 && errno == EINTR);
		if (k <= 0) {
			eof = true;
			last_errno = k < 0 ? errno : 0;
			return false;
		}
		buf.append(tmp, (size_t)k);
		received += (size_t)k;
		return true;
	}
	int last_errno = 0;
	// a line terminated by CRLF (returned without it); false on EOF / timeout / a bare LF / an over-long line
	bool read_line(std::string& line, size_t maxlen = 70000)
	{
		line.clear();
		for (;;) {
			size_t e = buf.find('\n', pos);
			if (e != std::string::npos) {
				if (e == pos || buf[e - 1] != '\r')
					return false;
				line.assign(buf, pos, e - 1 - pos);
				pos = e + 1;
				return true;
			}
			if (buf.size() - pos > maxlen)
				return false;
			if (!fill())
				return false;
		}
	}
	bool read_n(size_t n, std::string& out)
	{
		while (buf.size() - pos < n)
			if (!fill())
				return false;
		out.append(buf, pos, n);
		pos += n;
		return true;
	}
	size_t pending() const { return buf.size() - pos; }
	// true when bytes are buffered or arrive (or the peer closes) within the given time
	bool wait_readable(int ms)
	{
		if (pending())
			return true;
		fd_set r;
		FD_ZERO(&r);
		FD_SET(fd, &r);
		timeval tv;
		tv.tv_sec = ms / 1000;
		tv.tv_usec = (ms % 1000) * 1000;
		return ::select(fd + 1, &r, 0, 0, &tv) > 0;
	}
	// bytes that can be read right now without blocking (best effort) -- to notice data sent beyond a message
	size_t peek_extra()
	{
		char tmp[4096];
		ssize_t k = ::recv(fd, tmp, sizeof tmp, MSG_DONTWAIT | MSG_PEEK);
		return pending() + (k > 0 ? (size_t)k : 0);
	}
	// reads until the peer closes; returns the number of bytes that were still received (0 = clean end)
	size_t drain_to_eof(size_t cap = 1 << 24)
	{
		size_t extra = pending();
		pos = buf.size();
		while (extra < cap && fill()) {
			extra += pending();
			pos = buf.size();
		}
		return extra;
	}

	// Reads one message.  Returns "" or a description of what is wrong.  `nothing` is set when the connection ended
	// (cleanly or not) before the first byte of the message.
	// A request without Content-Length / chunked has no body; a response without either is read until the peer closes.
	// head_only: stop after the empty line (used to look at an interim or early response without waiting for a body).
	// A 1xx response has no body.  close_ends_chunked: a chunked body may also end with the connection closing where a
	// chunk-size line would start (a peer that streams until it closes instead of sending the last-chunk).
	std::string read_message(Message& m, bool is_response, bool* nothing = 0, bool head_only = false, bool close_ends_chunked = false)
	{
		m = Message();
		if (nothing)
			*nothing = false;
		size_t rec0 = received;
		bool had = pending() > 0;
		if (!read_line(m.start)) {
			if (nothing && !had && received == rec0)
				*nothing = true;
			return std::string("no complete start line (") + why() + ")";
		}
		std::string line;
		for (;;) {
			if (!read_line(line))
				return std::string("head not terminated (") + why() + ")";
			if (line.empty())
				break;
			size_t c = line.find(':');
			if (c == std::string::npos || c == 0)
				return "header line without a name/colon: " + line.substr(0, 80);
			std::string name = line.substr(0, c), value = line.substr(c + 1);
			size_t a = value.find_first_not_of(" \t"), b = value.find_last_not_of(" \t");
			value = a == std::string::npos ? "" : value.substr(a, b - a + 1);
			if (name.find_first_of(" \t") != std::string::npos)
				return "whitespace in header name: " + line.substr(0, 80);
			m.headers.push_back(std::make_pair(name, value));
		}
		if (head_only)
			return "";
		if (is_response && m.status() >= 100 && m.status() < 200)
			return "";
		const std::string* te = m.find("Transfer-Encoding");
		const std::string* cl = m.find("Content-Length");
		if (te && http_lower(*te) == "chunked") {
			m.chunked = true;
			for (;;) {
				size_t before = pending();
				if (!read_line(line)) {
					if (close_ends_chunked && eof && last_errno == 0 && before == 0 && pending() == 0) {
						m.ended_by_close = true;
						return "";
					}
					return std::string("chunk size line missing (") + why() + ")";
				}
				size_t semi = line.find(';');
				std::string hx = semi == std::string::npos ? line : line.substr(0, semi);
				if (hx.empty() || hx.size() > 8 || hx.find_first_not_of("0123456789abcdefABCDEF") != std::string::npos)
					return "malformed chunk size line: " + line.substr(0, 40);
				size_t n = (size_t)strtoul(hx.c_str(), 0, 16);
				if (n == 0)
					break;
				if (!read_n(n, m.body))
					return std::string("chunk data truncated (") + why() + ")";
				std::string crlf;
				if (!read_n(2, crlf) || crlf != "\r\n")
					return "chunk data not followed by CRLF";
			}
			for (;;) { // trailer section
				if (!read_line(line))
					return std::string("chunked body not terminated (") + why() + ")";
				if (line.empty())
					break;
			}
			return "";
		}
		if (cl) {
			if (m.count("Content-Length") != 1)
				return "more than one Content-Length header";
			if (cl->empty() || cl->size() > 10 || cl->find_first_not_of("0123456789") != std::string::npos)
				return "malformed Content-Length: " + *cl;
			m.has_length = true;
			size_t n = (size_t)strtoull(cl->c_str(), 0, 10);
			if (!read_n(n, m.body)) {
				size_t got = pending();
				return "body shorter than Content-Length " + *cl + " (got " + std::to_string(got) + " bytes, " + why() + ")";
			}
			return "";
		}
		if (is_response) {
			m.body.append(buf, pos, std::string::npos);
			pos = buf.size();
			while (fill()) {
				m.body.append(buf, pos, std::string::npos);
				pos = buf.size();
			}
		}
		return "";
	}
	std::string why() const
	{
		if (!eof)
			return "malformed";
		if (last_errno == 0)
			return "connection closed by peer";
		if (last_errno == EAGAIN || last_errno == EWOULDBLOCK)
			return "receive timeout";
		return std::string("recv: ") + strerror(last_errno);
	}
};

// ------------------------------------------------------------------------------------------------ tiny server

// Accepts connections on the loopback address and port 0; for every complete request read from a connection calls
// on_request(conn, request, error) on the connection's own thread (error non-empty: the request was malformed /
// truncated; the connection is closed afterwards).  After the peer closed, on_close(first request's target, number of
// bytes that arrived after the last complete request) is called.  The handler writes the response itself.
struct MiniServer {
	int lfd = -1;
	int port = 0;
	std::thread acc;
	std::atomic<bool> stopping{false};
	std::atomic<int> live{0};
	int io_timeout_s = 150;
	std::function<void(Conn&, const Message&, const std::string&)> on_request;
	std::function<void(const std::string&, size_t)> on_close;

	bool start(bool v6, int rcvbuf, std::string* err)
	{
		lfd = ::socket(v6 ? AF_INET6 : AF_INET, SOCK_STREAM, 0);
		if (lfd < 0) {
			if (err)
				*err = std::string("socket: ") + strerror(errno);
			return false;
		}
		if (rcvbuf > 0)
			setsockopt(lfd, SOL_SOCKET, SO_RCVBUF, &rcvbuf, sizeof rcvbuf); // inherited by accepted sockets
		int r;
		if (v6) {
			sockaddr_in6 a;
			memset(&a, 0, sizeof a);
			a.sin6_family = AF_INET6;
			a.sin6_addr = in6addr_loopback;
			r = ::bind(lfd, (sockaddr*)&a, sizeof a);
		}
		else {
			sockaddr_in a;
			memset(&a, 0, sizeof a);
			a.sin_family = AF_INET;
			a.sin_addr.s_addr = htonl(INADDR_LOOPBACK);
			r = ::bind(lfd, (sockaddr*)&a, sizeof a);
		}
		if (r != 0 || ::listen(lfd, 128) != 0) {
			if (err)
				*err = std::string("bind/listen: ") + strerror(errno);
			::close(lfd);
			lfd = -1;
			return false;
		}
		sockaddr_storage ss;
		socklen_t sl = sizeof ss;
		getsockname(lfd, (sockaddr*)&ss, &sl);
		port = ntohs(v6 ? ((sockaddr_in6*)&ss)->sin6_port : ((sockaddr_in*)&ss)->sin_port);
		acc = std::thread([this] { accept_loop(); });
		return true;
	}
	void accept_loop()
	{
		for (;;) {
			int c = ::accept(lfd, 0, 0);
			if (stopping)
				break;
			if (c < 0) {
				if (errno == EINTR || errno == ECONNABORTED)
					continue;
				break;
			}
			live++;
			std::thread([this, c] {
				serve(c);
				live--;
			}).detach();
		}
	}
	void serve(int c)
	{
		Conn conn;
		conn.adopt(c, io_timeout_s);
		std::string first_target;
		bool have_first = false;
		for (;;) {
			Message req;
			bool nothing = false;
			std::string err = conn.read_message(req, false, &nothing);
			if (nothing)
				break;
			if (!have_first) {
				first_target = req.target();
				have_first = true;
			}
			if (on_request)
				on_request(conn, req, err);
			if (!err.empty() || conn.fd < 0)
				break;
		}
		size_t extra = conn.fd >= 0 ? conn.drain_to_eof() : 0;
		if (have_first && on_close)
			on_close(first_target, extra);
	}
	// the process keeps the server until it exits; stop() is only for orderly teardown in tests of the reference itself
	void stop()
	{
		stopping = true;
		if (lfd >= 0) {
			::shutdown(lfd, SHUT_RDWR);
			::close(lfd);
			lfd = -1;
		}
		if (acc.joinable())
			acc.join();
	}
};

} // namespace ref
