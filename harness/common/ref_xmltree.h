// ref_xmltree.h -- plain-STL model of an XML element tree for C07 (no asl headers).
//  * Node: element (tag, attribute map, ordered children) or text
//  * normalise(): the equivalence the property names -- adjacent text nodes merged, then text consisting only of
//    space/TAB/CR/LF dropped
//  * diff(): first structural difference between two trees, "" when equal
//  * snapshot()/check_links(): templates over the DOM handle type (instantiated with asl::Xml by the harnesses); they
//    use only the public observers tag(), attribs(), numChildren(), child(i), isText(), text(), parent(), ==, isnull()
#pragma once
#include <map>
#include <string>
#include <vector>

namespace refxml {

struct Node {
	bool text = false;
	int how = 0;   // text only: 0 = appended as an XmlText node, 1 = appended with operator<<(String) (merges in asl)
	std::string s; // tag or text
	std::map<std::string, std::string> attrs;
	std::vector<Node> kids;
};

inline bool ws_only(const std::string& s)
{
	for (unsigned char c : s)
		if (c != ' ' && c != '\t' && c != '\r' && c != '\n')
			return false;
	return true;
}

// strict UTF-8 decoder (no overlongs, no surrogates, <= U+10FFFF); returns false on malformed input
inline bool utf8_next(const std::string& s, size_t& i, unsigned& cp)
{
	unsigned char c = s[i];
	int n = c < 0x80 ? 0 : (c & 0xe0) == 0xc0 ? 1 : (c & 0xf0) == 0xe0 ? 2 : (c & 0xf8) == 0xf0 ? 3 : -1;
	if (n < 0)
		return false;
	static const unsigned minv[] = {0, 0x80, 0x800, 0x10000};
	cp = n == 0 ? c : n == 1 ? c & 0x1f : n == 2 ? c & 0x0f : c & 0x07;
	for (int k = 1; k <= n; k++) {
		if (i + k >= s.size())
			return false;
		unsigned char d = s[i + k];
		if ((d & 0xc0) != 0x80)
			return false;
		cp = (cp << 6) | (d & 0x3f);
	}
	if (cp < minv[n] || cp > 0x10ffff || (cp >= 0xd800 && cp <= 0xdfff))
		return false;
	i += n + 1;
	return true;
}

// XML 1.0 (5th ed.) production [4] NameStartChar
inline bool xml_name_start(unsigned c)
{
	return c == ':' || (c >= 'A' && c <= 'Z') || c == '_' || (c >= 'a' && c <= 'z') || (c >= 0xC0 && c <= 0xD6) || (c >= 0xD8 && c <= 0xF6) ||
	       (c >= 0xF8 && c <= 0x2FF) || (c >= 0x370 && c <= 0x37D) || (c >= 0x37F && c <= 0x1FFF) || (c >= 0x200C && c <= 0x200D) ||
	       (c >= 0x2070 && c <= 0x218F) || (c >= 0x2C00 && c <= 0x2FEF) || (c >= 0x3001 && c <= 0xD7FF) || (c >= 0xF900 && c <= 0xFDCF) ||
	       (c >= 0xFDF0 && c <= 0xFFFD) || (c >= 0x10000 && c <= 0xEFFFF);
}
// production [4a] NameChar
inline bool xml_name_char(unsigned c)
{
	return xml_name_start(c) || c == '-' || c == '.' || (c >= '0' && c <= '9') || c == 0xB7 || (c >= 0x300 && c <= 0x36F) || (c >= 0x203F && c <= 0x2040);
}

// "well-formed tag / attribute name" = XML 1.0 production [5] Name over UTF-8:  NameStartChar NameChar*
// (ASCII part: [A-Za-z_:][A-Za-z0-9_:.-]*).  Every such name is accepted by the unchanged decoder, whose own test is wider
// (any byte >= 0x80 and DEL anywhere); names outside the production are not in the "must round-trip" domain.
inline bool name_ok(const std::string& s)
{
	if (s.empty())
		return false;
	size_t i = 0;
	bool first = true;
	while (i < s.size()) {
		unsigned cp;
		if (!utf8_next(s, i, cp))
			return false;
		if (first ? !xml_name_start(cp) : !xml_name_char(cp))
			return false;
		first = false;
	}
	return true;
}

inline void normalise(Node& n)
{
	if (n.text)
		return;
	std::vector<Node> k;
	for (auto& c : n.kids) {
		if (c.text && !k.empty() && k.back().text)
			k.back().s += c.s;
		else
			k.push_back(c);
	}
	n.kids.clear();
	for (auto& c : k) {
		if (c.text && ws_only(c.s))
			continue;
		normalise(c);
		n.kids.push_back(c);
	}
}

inline size_t count(const Node& n)
{
	size_t r = 1;
	for (auto& c : n.kids)
		r += count(c);
	return r;
}

inline int depth(const Node& n)
{
	int d = 0;
	for (auto& c : n.kids)
		if (!c.text) {
			int x = depth(c);
			if (x > d)
				d = x;
		}
	return d + 1;
}

inline std::string quote(const std::string& s)
{
	static const char* d = "0123456789abcdef";
	std::string r = "\"";
	for (size_t i = 0; i < s.size() && i < 60; i++) {
		unsigned char c = s[i];
		if (c >= 32 && c < 127 && c != '"' && c != '\\')
			r += (char)c;
		else {
			r += "\\x";
			r += d[c >> 4];
			r += d[c & 15];
		}
	}
	if (s.size() > 60)
		r += "...";
	return r + "\"";
}

// first difference between want (model) and got (decoded), both normalised; "" when equal
inline std::string diff(const Node& want, const Node& got, const std::string& path = "/")
{
	if (want.text != got.text)
		return path + ": want " + (want.text ? "text " + quote(want.s) : "element <" + want.s + ">") + ", got " +
		       (got.text ? "text " + quote(got.s) : "element <" + got.s + ">");
	if (want.text)
		return want.s == got.s ? "" : path + ": text differs: want " + quote(want.s) + " got " + quote(got.s);
	if (want.s != got.s)
		return path + ": tag differs: want " + quote(want.s) + " got " + quote(got.s);
	if (want.attrs != got.attrs) {
		for (auto& kv : want.attrs) {
			auto it = got.attrs.find(kv.first);
			if (it == got.attrs.end())
				return path + want.s + ": attribute " + quote(kv.first) + " lost";
			if (it->second != kv.second)
				return path + want.s + ": attribute " + quote(kv.first) + " differs: want " + quote(kv.second) + " got " + quote(it->second);
		}
		for (auto& kv : got.attrs)
			if (!want.attrs.count(kv.first))
				return path + want.s + ": spurious attribute " + quote(kv.first) + "=" + quote(kv.second);
	}
	if (want.kids.size() != got.kids.size()) {
		std::string a, b;
		for (auto& c : want.kids)
			a += c.text ? "#text " : "<" + c.s + "> ";
		for (auto& c : got.kids)
			b += c.text ? "#text " : "<" + c.s + "> ";
		return path + want.s + ": " + std::to_string(want.kids.size()) + " children wanted [" + a + "], got " + std::to_string(got.kids.size()) + " [" + b + "]";
	}
	for (size_t i = 0; i < want.kids.size(); i++) {
		std::string d = diff(want.kids[i], got.kids[i], path + want.s + "[" + std::to_string(i) + "]/");
		if (!d.empty())
			return d;
	}
	return "";
}

// every element has exactly-one-text-child-or-no-text (the domain of the indented-mode clause)
inline bool text_only_sole(const Node& n)
{
	if (n.text)
		return true;
	bool hasText = false;
	for (auto& c : n.kids)
		hasText = hasText || c.text;
	if (hasText && n.kids.size() != 1)
		return false;
	for (auto& c : n.kids)
		if (!text_only_sole(c))
			return false;
	return true;
}

inline bool names_ok(const Node& n)
{
	if (n.text)
		return true;
	if (!name_ok(n.s))
		return false;
	for (auto& kv : n.attrs)
		if (!name_ok(kv.first))
			return false;
	for (auto& c : n.kids)
		if (!names_ok(c))
			return false;
	return true;
}

template <class S>
std::string to_std(const S& s)
{
	return std::string(*s, (size_t)s.length());
}

// Walk a DOM (handle type X) checking the structural invariant of the property:
// for every element e and every child c of e: c is a node and c.parent() == e (pointer identity); the walk visits at
// most `limit` nodes (more means the "tree" is not one).  Returns "" or the first problem; fills `out` with a snapshot.
template <class X>
std::string walk(const X& e, Node& out, size_t& nodes, size_t limit, int level = 0, bool links = true)
{
	if (++nodes > limit)
		return "walk visited more than " + std::to_string(limit) + " nodes (not a finite tree for this input)";
	if (e.isText()) {
		out.text = true;
		out.s = to_std(e.text());
		return "";
	}
	out.text = false;
	out.s = to_std(e.tag());
	for (auto a = e.attribs().all(); a; ++a)
		out.attrs[to_std(~a)] = to_std(*a);
	int n = e.numChildren();
	if (n < 0)
		return "negative child count";
	for (int i = 0; i < n; i++) {
		const X& c = e.child(i);
		if (c.isnull())
			return "child " + std::to_string(i) + " of <" + out.s + "> is a null handle";
		X p = links ? c.parent() : e;
		if (p.isnull())
			return "child " + std::to_string(i) + " of <" + out.s + "> (level " + std::to_string(level) + ") has a null parent()";
		if (!(p == e))
			return "child " + std::to_string(i) + " of <" + out.s + "> (level " + std::to_string(level) + ") has a parent() that is not its container";
		out.kids.emplace_back();
		std::string r = walk(c, out.kids.back(), nodes, limit, level + 1, links);
		if (!r.empty())
			return r;
	}
	return "";
}


struct DecodeInfo {
	bool null = true;      // decode returned the null element
	size_t nodes = 0;      // nodes of the returned tree
	size_t elements = 0;   // element nodes of the returned tree
	bool roundtrip = false; // the re-encode / re-decode comparison was applied
	Node tree;
};

inline size_t count_elements(const Node& n)
{
	if (n.text)
		return 0;
	size_t r = 1;
	for (auto& c : n.kids)
		r += count_elements(c);
	return r;
}

// Part A oracle for one byte string (X = DOM handle with static decode/encode, S = its string type):
// decode terminates (the caller's process survives, ASan silent) and the result is either the null element (!x) or a
// tree: root.parent() is the null handle, every child's parent() is its container, node count <= input length.
// When all tag/attribute names of that tree are XML 1.0 Names (name_ok) the second clause of the property
// applies to it as well: decode(encode(tree, compact)) equals it up to text merging / whitespace-only text, and the
// same for the indented output when text occurs only as sole child.
// The input lives in a heap String that is destroyed BEFORE the result is inspected (the tree must own its data).
template <class X, class S>
std::string decode_oracle(const std::string& input, DecodeInfo& info)
{
	S* in = new S(input.data(), (int)input.size());
	X x = X::decode(*in);
	delete in;
	if (!x) {
		info.null = true;
		return "";
	}
	info.null = false;
	if (x.isText())
		return "decode returned a non-null text node as the document root";
	{
		X p = x.parent();
		if (!p.isnull())
			return "root element <" + to_std(x.tag()) + "> has a non-null parent()";
	}
	size_t limit = input.size() + 1;
	std::string r = walk(x, info.tree, info.nodes, limit);
	if (!r.empty())
		return r;
	info.elements = count_elements(info.tree);
	if (!names_ok(info.tree))
		return "";
	info.roundtrip = true;
	Node want = info.tree;
	normalise(want);
	for (int formatted = 0; formatted < 2; formatted++) {
		if (formatted && !text_only_sole(info.tree))
			break;
		S enc = X::encode(x, formatted != 0);
		X back = X::decode(enc);
		if (!back)
			return std::string("decode(encode(decoded tree, ") + (formatted ? "indented" : "compact") + ")) is the null element; encoded: " + quote(to_std(enc));
		Node got;
		size_t nodes = 0;
		std::string w = walk(back, got, nodes, (size_t)enc.length() + 1);
		if (!w.empty())
			return "re-decoded tree: " + w;
		normalise(got);
		std::string d = diff(want, got);
		if (!d.empty())
			return std::string("decode(encode(decoded tree, ") + (formatted ? "indented" : "compact") + ")) differs at " + d + "; encoded: " + quote(to_std(enc));
	}
	return "";
}

} // namespace refxml
