// ref_tz.h -- the harness's own evaluation of a few POSIX TZ rule strings (no asl headers, no tzdata needed).
// A zone is "STDoffset" or "STDoffsetDST,Mm.w.d[/h],Mm.w.d[/h]"; offsets here are seconds EAST of UTC (the POSIX
// string has the opposite sign).  offset(t) is audited against libc (localtime_r's tm_gmtoff under the same TZ
// string) by tz_audit_ok(); asl itself never reads tm_gmtoff (it compares localtime() and gmtime() fields).
#pragma once
#include "ref_civil.h"
#include <cstdlib>
#include <cstring>
#include <ctime>
#include <string>
#include <vector>

namespace ref {

struct TzRule {
	int m, w, d, time; // Mm.w.d/time: month 1..12, week 1..5 (5 = last), weekday 0 = Sunday, local time in seconds
};

struct Zone {
	const char* tz; // the POSIX string handed to setenv("TZ", ...)
	int std_off;    // seconds east of UTC
	bool dst;
	int dst_off;
	TzRule start, end; // start: in local standard time; end: in local daylight time

	// day number (days since 1970-01-01) of rule r in civil year y
	static int64_t rule_day(const TzRule& r, int64_t y)
	{
		int64_t first = days_from_civil(y, r.m, 1);
		int wd = weekday_from_days(first);
		int64_t d = first + (r.d - wd + 7) % 7 + 7 * (r.w - 1);
		while (d >= first + days_in_month(y, r.m))
			d -= 7;
		return d;
	}
	int64_t start_utc(int64_t y) const { return rule_day(start, y) * 86400 + start.time - std_off; }
	int64_t end_utc(int64_t y) const { return rule_day(end, y) * 86400 + end.time - dst_off; }

	int offset(int64_t t) const
	{
		if (!dst)
			return std_off;
		int64_t y = civil_from_days(floordiv(t + std_off, 86400)).year;
		int64_t s = start_utc(y), e = end_utc(y);
		bool in = s < e ? (t >= s && t < e) : (t >= s || t < e);
		return in ? dst_off : std_off;
	}
	// distance in seconds to the nearest transition (a large number for fixed zones)
	int64_t transition_distance(int64_t t) const
	{
		if (!dst)
			return INT64_MAX;
		int64_t y = civil_from_days(floordiv(t, 86400)).year, best = INT64_MAX;
		for (int64_t k = y - 1; k <= y + 1; k++)
			for (int64_t x : {start_utc(k), end_utc(k)}) {
				int64_t dd = t > x ? t - x : x - t;
				if (dd < best)
					best = dd;
			}
		return best;
	}
};

// whole-hour fixed zones (both signs, incl. the extremes), three DST zones (northern with the end rule at /3,
// northern US, southern), and zones whose offset has minutes
inline const std::vector<Zone>& zones()
{
	static const std::vector<Zone> z = {
	    {"AAA-5", 5 * 3600, false, 0, {}, {}},
	    {"BBB+8", -8 * 3600, false, 0, {}, {}},
	    {"CCC-12", 12 * 3600, false, 0, {}, {}},
	    {"DDD+11", -11 * 3600, false, 0, {}, {}},
	    {"EEE-14", 14 * 3600, false, 0, {}, {}},
	    {"FFF+12", -12 * 3600, false, 0, {}, {}},
	    {"GGG-1", 1 * 3600, false, 0, {}, {}},
	    {"CET-1CEST,M3.5.0,M10.5.0/3", 3600, true, 7200, {3, 5, 0, 7200}, {10, 5, 0, 10800}},
	    {"EST5EDT,M3.2.0,M11.1.0", -5 * 3600, true, -4 * 3600, {3, 2, 0, 7200}, {11, 1, 0, 7200}},
	    {"NZST-12NZDT,M9.5.0,M4.1.0/3", 12 * 3600, true, 13 * 3600, {9, 5, 0, 7200}, {4, 1, 0, 10800}},
	    {"HHH-5:30", 5 * 3600 + 1800, false, 0, {}, {}},
	    {"III-0:45", 2700, false, 0, {}, {}},
	    {"JJJ+3:30", -(3 * 3600 + 1800), false, 0, {}, {}},
	};
	return z;
}

struct TzGuard {
	std::string old;
	bool had;
	explicit TzGuard(const char* tz)
	{
		const char* o = getenv("TZ");
		had = o != 0;
		if (o)
			old = o;
		setenv("TZ", tz, 1);
		tzset();
	}
	~TzGuard()
	{
		if (had)
			setenv("TZ", old.c_str(), 1);
		else
			unsetenv("TZ");
		tzset();
	}
};

// offset(t) against libc for every zone: instants around every transition of 1970..2037 (+-1 s, +-1 h) and a
// pseudo-random sample of the epoch range
inline bool tz_audit_ok(std::string* why)
{
	for (const Zone& z : zones()) {
		TzGuard g(z.tz);
		std::vector<int64_t> ts;
		uint64_t x = 99;
		for (int i = 0; i < 4000; i++) {
			x = x * 6364136223846793005ULL + 1442695040888963407ULL;
			ts.push_back((int64_t)((x >> 11) % 2145916800ULL));
		}
		if (z.dst)
			for (int64_t y = 1970; y <= 2037; y++)
				for (int64_t tr : {z.start_utc(y), z.end_utc(y)})
					for (int64_t d : {-3600, -1, 0, 1, 3600})
						if (tr + d >= 0)
							ts.push_back(tr + d);
		for (int64_t t : ts) {
			time_t tt = (time_t)t;
			struct tm tmv;
			if (!localtime_r(&tt, &tmv)) {
				*why = std::string("localtime_r failed under TZ=") + z.tz;
				return false;
			}
			if (tmv.tm_gmtoff != z.offset(t)) {
				*why = std::string("TZ=") + z.tz + ": the harness's offset " + std::to_string(z.offset(t)) + " differs from libc's tm_gmtoff " +
				       std::to_string((long)tmv.tm_gmtoff) + " at t=" + std::to_string(t);
				return false;
			}
		}
	}
	return true;
}

} // namespace ref
