// vfrc.h -- rapidcheck glue: generated Cases are executed through vf::Runner (same code path as --replay),
// every failing execution overwrites the saved failure so that the last one written is rapidcheck's shrunk minimum.
#pragma once
#include "vf.h"
#include <rapidcheck.h>

namespace vf {

inline void showValue(const Case& c, std::ostream& os) { os << "\n" << serialize(c); }
inline void showValue(const Op& o, std::ostream& os)
{
	Case c;
	c.ops.push_back(o);
	os << serialize(c);
}

// full-range integer in [lo, hi] regardless of the current size (rc::gen::inRange collapses to lo at small sizes)
template <class T>
rc::Gen<T> irange(T lo, T hi)
{
	return rc::gen::resize(100, rc::gen::inRange<T>(lo, (T)(hi + 1)));
}
// integer in [lo, hi] scaled with size (small values early in a run, shrinks towards lo)
template <class T>
rc::Gen<T> srange(T lo, T hi)
{
	return rc::gen::inRange<T>(lo, (T)(hi + 1));
}

// a length biased to the given boundary values (each +-1) and otherwise uniform in [0, maxlen]
inline rc::Gen<int> boundary_len(std::vector<int> bounds, int maxlen)
{
	return rc::gen::mapcat(irange<int>(0, 9), [=](int k) -> rc::Gen<int> {
		if (k < 6 && !bounds.empty())
			return rc::gen::map(rc::gen::pair(rc::gen::elementOf(bounds), irange<int>(-1, 1)), [=](std::pair<int, int> p) {
				int v = p.first + p.second;
				return v < 0 ? 0 : v;
			});
		if (k < 8)
			return irange<int>(0, maxlen < 40 ? maxlen : 40);
		return irange<int>(0, maxlen);
	});
}

// bytes in [lo, hi] of exactly n
inline rc::Gen<std::string> bytes_n(int n, int lo = 1, int hi = 255)
{
	return rc::gen::map(rc::gen::container<std::vector<int>>((size_t)n, irange<int>(lo, hi)), [](const std::vector<int>& v) {
		std::string s;
		for (int x : v)
			s += (char)x;
		return s;
	});
}

struct CheckResult {
	bool ok;
	std::string description;
};

// Runs `n` generated cases of `part` (max size `maxSize`); returns false after the first (shrunk) failure.
inline bool check_cases(const std::string& part, long n, int maxSize, rc::Gen<Case> gen,
                        std::function<void(const Case&)> classify = nullptr)
{
	using namespace rc::detail;
	const Args& a = runner().args;
	TestParams params;
	params.seed = a.seed * 1000003ULL + (uint64_t)a.worker * 7919ULL + fnv(part);
	params.maxSuccess = (int)n;
	params.maxSize = maxSize;
	params.maxDiscardRatio = 10;
	TestMetadata md;
	md.id = part;
	md.description = part;
	uint64_t before = stats().evaluations;
	auto result = checkTestable(
	    [&]() {
		    Case c = *gen;
		    if (classify)
			    classify(c);
		    std::string err;
		    if (!runner().run(part, c, &err))
			    RC_FAIL(err);
	    },
	    md, params);
	stats().part(part, stats().evaluations - before, false);
	if (result.template is<SuccessResult>())
		return true;
	std::ostringstream os;
	printResultMessage(result, os);
	fprintf(stderr, "[%s] %s\n", part.c_str(), os.str().c_str());
	if (!result.template is<FailureResult>()) {
		// gave up / generator error: infrastructure problem, not a property failure
		fprintf(stderr, "INFRA rapidcheck gave up or errored in part %s\n", part.c_str());
		printf("INFRA %s\n", part.c_str());
		exit(2);
	}
	return false;
}

} // namespace vf
