// ref_var.h -- reference value graph for JSON-like values (no asl headers): scalars and strings by value,
// arrays/objects as shared_ptr nodes shared between copies (asl's documented Var semantics), deep copy, tri-state equality,
// reachability (cycle avoidance), handle counting, text rendering.
#pragma once
#include <cmath>
#include <cstdint>
#include <cstdio>
#include <cstring>
#include <map>
#include <memory>
#include <set>
#include <string>
#include <vector>

namespace ref {

struct VNode;

struct BytesLess {
	bool operator()(const std::string& a, const std::string& b) const { return strcmp(a.c_str(), b.c_str()) < 0; }
};

struct VVal {
	enum Kind { NONE, NUL, BOOL, INT, NUM, FLT, STR, ARR, OBJ };
	Kind k = NONE;
	bool b = false;
	int i = 0;
	double d = 0;
	std::string s;
	std::shared_ptr<VNode> n;
	int hint = 0; // construction hint for harnesses (e.g. which representation to build); ignored by every relation here

	bool isNum() const { return k == INT || k == NUM || k == FLT; }
	bool isCont() const { return k == ARR || k == OBJ; }
	double num() const { return k == INT ? (double)i : d; }
};

struct VNode {
	bool isObj = false;
	std::vector<VVal> arr;
	std::map<std::string, VVal, BytesLess> obj;
	size_t size() const { return isObj ? obj.size() : arr.size(); }
};

inline VVal vnone() { return VVal(); }
inline VVal vnul()
{
	VVal v;
	v.k = VVal::NUL;
	return v;
}
inline VVal vbool(bool x)
{
	VVal v;
	v.k = VVal::BOOL;
	v.b = x;
	return v;
}
inline VVal vint(int x)
{
	VVal v;
	v.k = VVal::INT;
	v.i = x;
	return v;
}
inline VVal vnum(double x)
{
	VVal v;
	v.k = VVal::NUM;
	v.d = x;
	return v;
}
inline VVal vflt(float x)
{
	VVal v;
	v.k = VVal::FLT;
	v.d = (double)x;
	return v;
}
inline VVal vstr(const std::string& x)
{
	VVal v;
	v.k = VVal::STR;
	v.s = x;
	return v;
}
inline VVal varr()
{
	VVal v;
	v.k = VVal::ARR;
	v.n = std::make_shared<VNode>();
	return v;
}
inline VVal vobj()
{
	VVal v;
	v.k = VVal::OBJ;
	v.n = std::make_shared<VNode>();
	v.n->isObj = true;
	return v;
}
// an unsigned is an INT when it fits, a NUMBER otherwise
inline VVal vunsigned(uint32_t x) { return x < 2147483648u ? vint((int)x) : vnum((double)x); }

// deep copy: fresh nodes everywhere, internal sharing is not preserved (a clone is a tree)
inline VVal deep(const VVal& v)
{
	VVal r = v;
	if (v.isCont()) {
		r.n = std::make_shared<VNode>();
		r.n->isObj = v.n->isObj;
		for (auto& e : v.n->arr)
			r.n->arr.push_back(deep(e));
		for (auto& e : v.n->obj)
			r.n->obj[e.first] = deep(e.second);
	}
	return r;
}

// is `target` reachable from `from` (from == target counts)
inline bool reaches(const VNode* from, const VNode* target, std::set<const VNode*>* seen = 0)
{
	if (!from)
		return false;
	if (from == target)
		return true;
	std::set<const VNode*> local;
	if (!seen)
		seen = &local;
	if (!seen->insert(from).second)
		return false;
	for (auto& e : from->arr)
		if (e.isCont() && reaches(e.n.get(), target, seen))
			return true;
	for (auto& e : from->obj)
		if (e.second.isCont() && reaches(e.second.n.get(), target, seen))
			return true;
	return false;
}

// number of references (slots / elements / properties) to every container node reachable from the given roots
inline void count_handles(const VVal& v, std::map<const VNode*, int>& cnt)
{
	if (!v.isCont())
		return;
	const VNode* n = v.n.get();
	if (cnt[n]++ > 0)
		return; // already expanded
	for (auto& e : n->arr)
		count_handles(e, cnt);
	for (auto& e : n->obj)
		count_handles(e.second, cnt);
}

inline size_t count_nodes(const VVal& v)
{
	size_t r = 1;
	if (v.isCont()) {
		for (auto& e : v.n->arr)
			r += count_nodes(e);
		for (auto& e : v.n->obj)
			r += count_nodes(e.second);
	}
	return r;
}

inline int depth(const VVal& v)
{
	int r = 0;
	if (v.isCont()) {
		for (auto& e : v.n->arr)
			r = std::max(r, depth(e));
		for (auto& e : v.n->obj)
			r = std::max(r, depth(e.second));
		r++;
	}
	return r;
}

// equality demanded by the property: T (must be equal), F (must be unequal), U (not asserted: both sides NONE somewhere decisive)
enum Tri { F = 0, T = 1, U = 2 };

inline Tri equal(const VVal& a, const VVal& b)
{
	if (a.k == VVal::NONE && b.k == VVal::NONE)
		return U; // Var() == Var() is false by design; not asserted
	if (a.isNum() && b.isNum())
		return a.num() == b.num() ? T : F;
	if (a.k != b.k)
		return F;
	switch (a.k) {
	case VVal::NUL:
		return T;
	case VVal::BOOL:
		return a.b == b.b ? T : F;
	case VVal::STR:
		return a.s == b.s ? T : F;
	case VVal::ARR: {
		if (a.n->arr.size() != b.n->arr.size())
			return F;
		Tri r = T;
		for (size_t i = 0; i < a.n->arr.size(); i++) {
			Tri e = equal(a.n->arr[i], b.n->arr[i]);
			if (e == F)
				return F;
			if (e == U)
				r = U;
		}
		return r;
	}
	case VVal::OBJ: {
		if (a.n->obj.size() != b.n->obj.size())
			return F;
		Tri r = T;
		auto ia = a.n->obj.begin(), ib = b.n->obj.begin();
		for (; ia != a.n->obj.end(); ++ia, ++ib) {
			if (ia->first != ib->first)
				return F;
			Tri e = equal(ia->second, ib->second);
			if (e == F)
				return F;
			if (e == U)
				r = U;
		}
		return r;
	}
	default:
		return U;
	}
}

inline bool has_none(const VVal& v)
{
	if (v.k == VVal::NONE)
		return true;
	if (v.isCont()) {
		for (auto& e : v.n->arr)
			if (has_none(e))
				return true;
		for (auto& e : v.n->obj)
			if (has_none(e.second))
				return true;
	}
	return false;
}

// text form: ints in decimal, doubles with 15 and floats with 7 significant digits, strings raw, [a,b], {k=v,...}
inline std::string text(const VVal& v)
{
	char buf[64];
	switch (v.k) {
	case VVal::NONE:
		return "?";
	case VVal::NUL:
		return "null";
	case VVal::BOOL:
		return v.b ? "true" : "false";
	case VVal::INT:
		snprintf(buf, sizeof buf, "%d", v.i);
		return buf;
	case VVal::NUM:
		snprintf(buf, sizeof buf, "%.15g", v.d);
		return buf;
	case VVal::FLT:
		snprintf(buf, sizeof buf, "%.7g", v.d);
		return buf;
	case VVal::STR:
		return v.s;
	case VVal::ARR: {
		std::string r = "[";
		for (size_t i = 0; i < v.n->arr.size(); i++)
			r += (i ? "," : "") + text(v.n->arr[i]);
		return r + "]";
	}
	case VVal::OBJ: {
		std::string r = "{";
		bool first = true;
		for (auto& e : v.n->obj) {
			r += (first ? "" : ",") + e.first + "=" + text(e.second);
			first = false;
		}
		return r + "}";
	}
	}
	return "";
}

// short structural description for messages
inline std::string describe(const VVal& v, int maxdepth = 4)
{
	switch (v.k) {
	case VVal::NONE:
		return "none";
	case VVal::STR: {
		std::string r = "\"";
		for (unsigned char c : v.s) {
			if (c >= 32 && c < 127 && c != '"')
				r += (char)c;
			else {
				char b[8];
				snprintf(b, sizeof b, "\\x%02x", c);
				r += b;
			}
		}
		return r + "\"";
	}
	case VVal::INT:
		return text(v) + "i";
	case VVal::FLT:
		return text(v) + "f";
	case VVal::ARR: {
		if (maxdepth == 0)
			return "[..]";
		std::string r = "[";
		for (size_t i = 0; i < v.n->arr.size(); i++)
			r += (i ? "," : "") + describe(v.n->arr[i], maxdepth - 1);
		return r + "]";
	}
	case VVal::OBJ: {
		if (maxdepth == 0)
			return "{..}";
		std::string r = "{";
		bool first = true;
		for (auto& e : v.n->obj) {
			r += (first ? "" : ",") + describe(vstr(e.first)) + ":" + describe(e.second, maxdepth - 1);
			first = false;
		}
		return r + "}";
	}
	default:
		return text(v);
	}
}

} // namespace ref
