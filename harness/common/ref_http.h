// ref_http.h -- independent HTTP/1.1 request *writer* and reference URL helpers for C09 (no asl headers).
//
// The fidelity oracle of C09 is a "request as sent" model: a request is described semantically (method, decoded path,
// query pairs, header name/value pairs, body bytes) together with encoding choices (which bytes are percent-encoded,
// header-name case, optional whitespace, chunk sizes); this writer turns the description into wire bytes.  What the
// server's handler observes is compared with the semantic description, so no decoder of ours is in the loop.
#pragma once
#include <string>
#include <vector>
#include <map>
#include <cstdint>
#include <cstring>
#include <cstdio>

namespace refhttp {

struct Rng { // SplitMix64 (same generator as ref::SplitMix; repeated here so that this header stands alone)
	uint64_t s;
	explicit Rng(uint64_t seed) : s(seed) {}
	uint64_t next()
	{
		uint64_t z = (s += 0x9e3779b97f4a7c15ULL);
		z = (z ^ (z >> 30)) * 0xbf58476d1ce4e5b9ULL;
		z = (z ^ (z >> 27)) * 0x94d049bb133111ebULL;
		return z ^ (z >> 31);
	}
	unsigned below(unsigned n) { return n ? (unsigned)(next() % n) : 0; }
};

inline bool is_unreserved(unsigned char c) { return (c >= 'a' && c <= 'z') || (c >= 'A' && c <= 'Z') || (c >= '0' && c <= '9') || c == '-' || c == '.' || c == '_' || c == '~'; }

inline std::string pct(unsigned char c, bool upper)
{
	char b[4];
	snprintf(b, sizeof b, upper ? "%%%02X" : "%%%02x", c);
	return b;
}

// seed 0 = canonical (only the bytes that must be escaped are escaped, upper-case hex)
inline std::string encode_path(const std::string& decoded, uint64_t seed)
{
	Rng r(seed);
	std::string out;
	for (unsigned char c : decoded) {
		bool raw_ok = is_unreserved(c) || strchr("/!$&'()*+,;=:@", c) != 0;
		if (c == 0)
			raw_ok = false;
		bool enc = !raw_ok || (seed != 0 && r.below(5) == 0);
		if (enc)
			out += pct(c, seed == 0 || r.below(2) == 0);
		else
			out += (char)c;
	}
	return out;
}

// query component (key or value): space as '+' or %20, everything outside unreserved escaped
inline std::string encode_qcomp(const std::string& s, uint64_t seed)
{
	Rng r(seed ^ 0x51ed270b);
	std::string out;
	for (unsigned char c : s) {
		if (c == ' ') {
			out += (seed == 0 || r.below(2)) ? std::string("+") : std::string("%20");
			continue;
		}
		bool raw_ok = is_unreserved(c) || (c != 0 && strchr("!*'()", c) != 0);
		bool enc = !raw_ok || (seed != 0 && r.below(6) == 0);
		if (enc)
			out += pct(c, seed == 0 || r.below(2) == 0);
		else
			out += (char)c;
	}
	return out;
}

inline std::string recase(const std::string& s, uint64_t seed)
{
	Rng r(seed ^ 0x77aa);
	std::string o = s;
	if (seed == 0)
		return o;
	for (auto& ch : o) {
		unsigned k = r.below(3);
		if (ch >= 'a' && ch <= 'z' && k == 0)
			ch = (char)(ch - 32);
		else if (ch >= 'A' && ch <= 'Z' && k == 1)
			ch = (char)(ch + 32);
	}
	return o;
}

struct Header {
	std::string name, value;            // value without surrounding whitespace
	std::vector<std::string> folds;     // obs-fold continuation parts (each non-empty, no surrounding whitespace)
	int ows_before = 1;                 // 0 none, 1 " ", 2 "  ", 3 "\t", 4 " \t "
	int ows_after = 0;                  // 0 none, 1 " ", 2 "\t", 3 "  "
	uint64_t case_seed = 0;             // case of the name on the wire
	uint64_t lookup_seed = 1;           // case of the name used for the lookup
};

struct Request {
	std::string method = "GET";
	std::string path = "/";             // decoded path: starts with '/', no NUL, no ".."
	std::string fragment;               // decoded, may be empty
	int fragmode = 0;                   // 0 none, 1 "path?query#frag", 2 "path#frag?query" (the '?...' is then part of the fragment)
	bool http10 = false;
	uint64_t enc_seed = 0;
	std::vector<std::pair<std::string, std::string>> query; // distinct non-empty keys
	std::vector<Header> headers;        // names distinct case-insensitively, none of the framing names below
	int body_kind = 0;                  // 0 none, 1 Content-Length, 2 chunked
	std::string body;
	uint64_t chunk_seed = 0;
	int conn = 0;                       // 0 none, 1 "keep-alive", 2 "close", 3 "Keep-Alive"
	bool expect = false;                // Expect: 100-continue
	std::string bad_line;               // if non-empty: a malformed (colon-less) line inserted among the header lines
	int bad_pos = 0;
};

struct Wire {
	std::string bytes;
	size_t start = 0, head_end = 0, end = 0; // offsets in the whole stream
};

inline const char* ows_b(int k)
{
	static const char* t[] = {"", " ", "  ", "\t", " \t "};
	return t[(k % 5 + 5) % 5];
}
inline const char* ows_a(int k)
{
	static const char* t[] = {"", " ", "\t", "  "};
	return t[(k % 4 + 4) % 4];
}

inline std::string target_of(const Request& q)
{
	std::string t = encode_path(q.path, q.enc_seed);
	std::string qs;
	for (size_t i = 0; i < q.query.size(); i++) {
		if (i)
			qs += '&';
		qs += encode_qcomp(q.query[i].first, q.enc_seed ? q.enc_seed + 2 * i + 1 : 0) + "=" + encode_qcomp(q.query[i].second, q.enc_seed ? q.enc_seed + 2 * i + 2 : 0);
	}
	std::string fr = encode_qcomp(q.fragment, q.enc_seed ? q.enc_seed + 99 : 0);
	if (q.fragmode == 2)
		t += "#" + fr + (qs.empty() ? "" : "?" + qs);
	else {
		if (!qs.empty())
			t += "?" + qs;
		if (q.fragmode == 1)
			t += "#" + fr;
	}
	return t;
}

inline std::string chunked(const std::string& body, uint64_t seed)
{
	Rng r(seed ^ 0xc4a9);
	std::string out;
	size_t pos = 0;
	while (pos < body.size()) {
		size_t left = body.size() - pos, n;
		unsigned k = seed == 0 ? 9 : r.below(10);
		if (k < 3)
			n = 1 + r.below(4);
		else if (k < 6)
			n = 1 + r.below(300);
		else if (k < 8)
			n = 15990 + r.below(30); // around the 16000-byte receive block
		else
			n = left;
		if (n > left)
			n = left;
		char b[64];
		unsigned f = seed == 0 ? 0 : r.below(4);
		snprintf(b, sizeof b, f == 0 ? "%zx" : f == 1 ? "%zX" : f == 2 ? "%04zx" : "%zx;ext=1", n);
		out += b;
		out += "\r\n";
		out.append(body, pos, n);
		out += "\r\n";
		pos += n;
	}
	out += "0\r\n\r\n";
	return out;
}

inline Wire write_request(const Request& q, size_t at)
{
	Wire w;
	w.start = at;
	std::string& o = w.bytes;
	o = q.method + " " + target_of(q) + (q.http10 ? " HTTP/1.0\r\n" : " HTTP/1.1\r\n");
	// framing headers are interleaved at positions chosen by the seed so that they are not always last
	std::vector<std::string> lines;
	for (auto& h : q.headers) {
		std::string l = recase(h.name, h.case_seed) + ":" + ows_b(h.ows_before) + h.value;
		for (size_t i = 0; i < h.folds.size(); i++)
			l += std::string("\r\n") + ((h.case_seed + i) % 2 ? "\t" : " ") + h.folds[i];
		l += ows_a(h.ows_after);
		lines.push_back(l);
	}
	std::vector<std::string> fr;
	if (q.body_kind == 1)
		fr.push_back("Content-Length: " + std::to_string(q.body.size()));
	else if (q.body_kind == 2)
		fr.push_back("Transfer-Encoding: chunked");
	if (q.conn == 1)
		fr.push_back("Connection: keep-alive");
	else if (q.conn == 2)
		fr.push_back("Connection: close");
	else if (q.conn == 3)
		fr.push_back("Connection: Keep-Alive");
	if (q.expect)
		fr.push_back("Expect: 100-continue");
	Rng r(q.chunk_seed ^ 0x1234);
	for (auto& f : fr) {
		size_t p = q.chunk_seed == 0 ? lines.size() : r.below((unsigned)lines.size() + 1);
		lines.insert(lines.begin() + p, f);
	}
	if (!q.bad_line.empty())
		lines.insert(lines.begin() + (size_t)((q.bad_pos % (int)(lines.size() + 1) + (int)(lines.size() + 1)) % (int)(lines.size() + 1)), q.bad_line);
	for (auto& l : lines)
		o += l + "\r\n";
	o += "\r\n";
	w.head_end = at + o.size();
	if (q.body_kind == 1)
		o += q.body;
	else if (q.body_kind == 2)
		o += chunked(q.body, q.chunk_seed);
	w.end = at + o.size();
	return w;
}

inline bool closes(const Request& q) { return (q.http10 && q.conn != 1 && q.conn != 3) || q.conn == 2; }

inline std::string lower(std::string s)
{
	for (auto& c : s)
		if (c >= 'A' && c <= 'Z')
			c = (char)(c + 32);
	return s;
}

inline std::string strip_ws(const std::string& s)
{
	std::string r;
	for (char c : s)
		if (c != ' ' && c != '\t')
			r += c;
	return r;
}

// ------------------------------------------------------------------------------------------------------------------
// reference for Url(String): the decomposition of well-formed URLs  scheme://host[:port][/path...]
struct UrlParts {
	std::string protocol, host, path;
	int port = 0;
};
inline std::string write_url(const UrlParts& u, bool v6)
{
	std::string s;
	if (!u.protocol.empty())
		s = u.protocol + "://";
	s += v6 ? "[" + u.host + "]" : u.host;
	if (u.port)
		s += ":" + std::to_string(u.port);
	s += u.path;
	return s;
}

} // namespace refhttp
