// vf.h -- shared harness runtime for the /verif property checks (one TU per harness).
//
// A harness defines:
//   const char* vf_harness_name();
//   void vf_run_case(const std::string& part, const vf::Case& c);   // throws vf::Failure
//   void vf_search(const vf::Args& a);                              // generated search
// and gets main() from this header:
//   <bin> --search --out <stats.json> --last <file> --faildir <dir> --tier quick|thorough
//         --seed N --worker k --workers W [--scale X]
//   <bin> --replay <file>          exit 0 = holds, 1 = property failure, other = crash
//
// A Case is a list of ops, one per text line:  name int int ... | hex hex ...
// (ints decimal, strings hex so that any byte is representable; "-" is the empty string).
#pragma once
#include <cstdint>
#include <cstdio>
#include <cstdlib>
#include <cstring>
#include <csignal>
#include <string>
#include <vector>
#include <map>
#include <set>
#include <unordered_set>
#include <sstream>
#include <fstream>
#include <functional>
#include <unistd.h>
#include <fcntl.h>
#include <sys/stat.h>
#include <time.h>

#if defined(__has_feature)
#if __has_feature(address_sanitizer)
#define VF_ASAN 1
#endif
#endif
#if defined(__SANITIZE_ADDRESS__)
#define VF_ASAN 1
#endif
#if defined(__has_feature)
#if __has_feature(thread_sanitizer)
#define VF_TSAN 1
#endif
#endif
#ifdef VF_ASAN
#include <sanitizer/allocator_interface.h>
#include <sanitizer/common_interface_defs.h>
#include <sanitizer/lsan_interface.h>
#endif
#ifdef VF_TSAN
#include <sanitizer/common_interface_defs.h>
#endif

namespace vf {

struct Failure {
	std::string msg;
};

inline std::string hexs(const std::string& s)
{
	if (s.empty())
		return "-";
	static const char* d = "0123456789abcdef";
	std::string r;
	r.reserve(s.size() * 2);
	for (unsigned char c : s) {
		r += d[c >> 4];
		r += d[c & 15];
	}
	return r;
}

inline std::string unhex(const std::string& h)
{
	if (h == "-")
		return "";
	std::string r;
	auto v = [](char c) { return c <= '9' ? c - '0' : (c | 32) - 'a' + 10; };
	for (size_t i = 0; i + 1 < h.size(); i += 2)
		r += char(v(h[i]) * 16 + v(h[i + 1]));
	return r;
}

// printable rendering for samples / messages
inline std::string show(const std::string& s, size_t maxlen = 80)
{
	std::string r = "\"";
	for (size_t i = 0; i < s.size() && i < maxlen; i++) {
		unsigned char c = s[i];
		if (c == '"' || c == '\\') {
			r += '\\';
			r += c;
		}
		else if (c >= 32 && c < 127)
			r += c;
		else {
			char b[8];
			snprintf(b, sizeof b, "\\x%02x", c);
			r += b;
		}
	}
	if (s.size() > maxlen)
		r += "...(" + std::to_string(s.size()) + " bytes)";
	return r + "\"";
}

struct Op {
	std::string name;
	std::vector<long long> a;
	std::vector<std::string> s;
	Op() {}
	Op(const std::string& n) : name(n) {}
	Op(const std::string& n, std::initializer_list<long long> ai) : name(n), a(ai) {}
	Op(const std::string& n, std::initializer_list<long long> ai, std::initializer_list<std::string> si)
	    : name(n), a(ai), s(si) {}
	long long i(size_t k, long long def = 0) const { return k < a.size() ? a[k] : def; }
	const std::string& str(size_t k) const
	{
		static const std::string e;
		return k < s.size() ? s[k] : e;
	}
};

struct Case {
	std::vector<Op> ops;
	Case& add(const Op& o)
	{
		ops.push_back(o);
		return *this;
	}
};

inline std::string serialize(const Case& c)
{
	std::string r;
	for (auto& o : c.ops) {
		r += o.name;
		for (auto v : o.a) {
			r += ' ';
			r += std::to_string(v);
		}
		if (!o.s.empty()) {
			r += " |";
			for (auto& s : o.s) {
				r += ' ';
				r += hexs(s);
			}
		}
		r += '\n';
	}
	return r;
}

inline Case parse(const std::string& text)
{
	Case c;
	std::istringstream in(text);
	std::string line;
	while (std::getline(in, line)) {
		if (line.empty() || line[0] == '#')
			continue;
		std::istringstream ls(line);
		Op o;
		ls >> o.name;
		std::string tok;
		bool strs = false;
		while (ls >> tok) {
			if (tok == "|") {
				strs = true;
				continue;
			}
			if (strs)
				o.s.push_back(unhex(tok));
			else
				o.a.push_back(strtoll(tok.c_str(), 0, 10));
		}
		c.ops.push_back(o);
	}
	return c;
}

inline uint64_t fnv(const void* p, size_t n, uint64_t h = 1469598103934665603ULL)
{
	const unsigned char* b = (const unsigned char*)p;
	for (size_t i = 0; i < n; i++) {
		h ^= b[i];
		h *= 1099511628211ULL;
	}
	return h;
}
inline uint64_t fnv(const std::string& s, uint64_t h = 1469598103934665603ULL) { return fnv(s.data(), s.size(), h); }

struct Args {
	std::string mode, out, last, faildir, tier = "quick", replay, part, bin;
	uint64_t seed = 1;
	int worker = 0, workers = 1;
	double scale = 1.0;
	bool quick() const { return tier != "thorough"; }
	// n scaled by --scale (driver uses it to shorten/lengthen a tier without touching harness code)
	long n(long quickn, long thoroughn) const
	{
		double v = (quick() ? quickn : thoroughn) * scale;
		return v < 1 ? 1 : (long)v;
	}
};

// ---------------------------------------------------------------------------------------------
// statistics

struct Stats {
	uint64_t evaluations = 0, nontrivial_counted = 0, excluded_known = 0, discarded = 0;
	std::unordered_set<uint64_t> nontrivial;
	std::map<std::string, uint64_t> classes;
	std::vector<std::string> samples;
	std::map<std::string, std::pair<uint64_t, bool>> parts; // part -> (cases, exhaustive)
	std::string out;
	size_t cap = 4000000;

	void eval(uint64_t n = 1) { evaluations += n; }
	// a case that is non-trivial by the property's rule; h = hash of its serialisation
	void nt(uint64_t h)
	{
		if (nontrivial.size() < cap)
			nontrivial.insert(h);
	}
	// cases that are distinct by construction (enumerators)
	void nt_counted(uint64_t n = 1) { nontrivial_counted += n; }
	void cls(const std::string& c, uint64_t n = 1) { classes[c] += n; }
	void sample(const std::string& s, size_t max = 6)
	{
		if (samples.size() < max)
			samples.push_back(s.size() > 600 ? s.substr(0, 600) + "...(" + std::to_string(s.size()) + " bytes)" : s);
	}
	void part(const std::string& p, uint64_t n, bool exhaustive)
	{
		auto& e = parts[p];
		e.first += n;
		e.second = exhaustive;
	}
	static std::string js(const std::string& s)
	{
		std::string r = "\"";
		for (unsigned char c : s) {
			if (c == '"' || c == '\\') {
				r += '\\';
				r += c;
			}
			else if (c == '\n')
				r += "\\n";
			else if (c == '\t')
				r += "\\t";
			else if (c < 32 || c >= 127) {
				char b[8];
				snprintf(b, sizeof b, "\\u%04x", c);
				r += b;
			}
			else
				r += c;
		}
		return r + "\"";
	}
	void dump(bool final_)
	{
		if (out.empty())
			return;
		std::string tmp = out + ".tmp";
		FILE* f = fopen(tmp.c_str(), "w");
		if (!f)
			return;
		fprintf(f, "{\"final\": %s, \"evaluations\": %llu, \"nontrivial_counted\": %llu, \"excluded_known\": %llu, \"discarded\": %llu,\n",
		        final_ ? "true" : "false", (unsigned long long)evaluations, (unsigned long long)nontrivial_counted,
		        (unsigned long long)excluded_known, (unsigned long long)discarded);
		fprintf(f, " \"nontrivial_hashed\": %llu,\n \"classes\": {", (unsigned long long)nontrivial.size());
		bool first = true;
		for (auto& c : classes) {
			fprintf(f, "%s%s: %llu", first ? "" : ", ", js(c.first).c_str(), (unsigned long long)c.second);
			first = false;
		}
		fprintf(f, "},\n \"parts\": {");
		first = true;
		for (auto& p : parts) {
			fprintf(f, "%s%s: {\"cases\": %llu, \"exhaustive\": %s}", first ? "" : ", ", js(p.first).c_str(),
			        (unsigned long long)p.second.first, p.second.second ? "true" : "false");
			first = false;
		}
		fprintf(f, "},\n \"samples\": [");
		first = true;
		for (auto& s : samples) {
			fprintf(f, "%s%s", first ? "" : ", ", js(s).c_str());
			first = false;
		}
		fprintf(f, "]}\n");
		fclose(f);
		rename(tmp.c_str(), out.c_str());
		if (final_) {
			// hashes of the non-trivial cases, so the driver can count distinct ones across workers
			std::string hf = out + ".hashes";
			FILE* h = fopen(hf.c_str(), "wb");
			if (h) {
				for (auto v : nontrivial)
					fwrite(&v, 8, 1, h);
				fclose(h);
			}
		}
	}
};

inline Stats& stats()
{
	static Stats* s = new Stats; // never destroyed: usable from atexit/death callbacks
	return *s;
}

// ---------------------------------------------------------------------------------------------
// "current case" bookkeeping so that a crash (ASan abort, SEGV) or a kill on timeout leaves the case on disk

struct Current {
	int fd = -1;
	const char* p = 0;
	size_t n = 0;
	std::string hold, header;
};
inline Current& current()
{
	static Current* c = new Current;
	return *c;
}
inline void flush_current()
{
	Current& c = current();
	if (c.fd < 0 || !c.p)
		return;
	if (ftruncate(c.fd, 0) != 0) {}
	if (pwrite(c.fd, c.header.data(), c.header.size(), 0) < 0) {}
	if (pwrite(c.fd, c.p, c.n, c.header.size()) < 0) {}
}
inline void death_callback() { flush_current(); }
inline void term_handler(int sig)
{
	flush_current();
	_exit(128 + sig);
}
// for harnesses that want SIGPIPE to be fatal (the runtime ignores it by default): the current case is saved first
inline void pipe_handler(int sig)
{
	flush_current();
	signal(sig, SIG_DFL);
	raise(sig);
}
inline void die_on_sigpipe() { signal(SIGPIPE, pipe_handler); }
inline void set_current_text(const std::string& part, const std::string& text)
{
	Current& c = current();
	c.header = "#vf part=" + part + "\n";
	c.hold = text;
	c.p = c.hold.data();
	c.n = c.hold.size();
}
// for enumerators: a caller-owned static buffer that is updated in place (no per-case syscalls/allocations)
inline void set_current_buffer(const std::string& part, const char* buf, size_t n)
{
	Current& c = current();
	c.header = "#vf part=" + part + "\n";
	c.p = buf;
	c.n = n;
}

inline size_t allocated_bytes()
{
#ifdef VF_ASAN
	return __sanitizer_get_current_allocated_bytes();
#else
	return 0;
#endif
}

[[noreturn]] inline void fail(const char* file, int line, const char* cond, const std::string& msg)
{
	const char* b = strrchr(file, '/');
	throw Failure{std::string(b ? b + 1 : file) + ":" + std::to_string(line) + ": " + cond + (msg.empty() ? "" : " -- " + msg)};
}

inline std::string str() { return ""; }
template <class T>
std::string tostr(const T& x)
{
	std::ostringstream o;
	o << x;
	return o.str();
}
template <class T, class... R>
std::string str(const T& x, const R&... r)
{
	return tostr(x) + str(r...);
}

inline double now()
{
	timespec t;
	clock_gettime(CLOCK_MONOTONIC, &t);
	return t.tv_sec + 1e-9 * t.tv_nsec;
}

} // namespace vf

#define VF_CHECK(cond, ...)                                              \
	do {                                                                   \
		if (!(cond))                                                       \
			vf::fail(__FILE__, __LINE__, #cond, vf::str(__VA_ARGS__));     \
	} while (0)
#define VF_FAIL(...) vf::fail(__FILE__, __LINE__, "failed", vf::str(__VA_ARGS__))

const char* vf_harness_name();
void vf_run_case(const std::string& part, const vf::Case& c);
void vf_search(const vf::Args& a);

namespace vf {

// run one case inside the search: record it as current, execute, on failure save it under faildir
struct Runner {
	Args args;
	uint64_t failures = 0;
	std::string first_failure;
	// returns true if the case held
	bool run(const std::string& part, const Case& c, std::string* err = 0)
	{
		std::string text = serialize(c);
		set_current_text(part, text);
		stats().eval();
		try {
			vf_run_case(part, c);
			return true;
		}
		catch (const Failure& f) {
			failures++;
			save_failure(part, text, f.msg);
			if (err)
				*err = f.msg;
			return false;
		}
	}
	void save_failure(const std::string& part, const std::string& text, const std::string& msg)
	{
		if (args.faildir.empty())
			return;
		// one file per (part): overwritten by every later (smaller, when shrinking) failing case
		std::string path = args.faildir + "/" + (args.bin.empty() ? std::string(vf_harness_name()) : args.bin) + "." + part + ".w" + std::to_string(args.worker) + ".case";
		FILE* f = fopen(path.c_str(), "w");
		if (!f)
			return;
		std::string m = msg;
		for (auto& ch : m)
			if (ch == '\n')
				ch = ' ';
		fprintf(f, "#vf part=%s\n#msg %s\n%s", part.c_str(), m.c_str(), text.c_str());
		fclose(f);
		if (first_failure.empty())
			first_failure = path;
	}
};

inline Runner& runner()
{
	static Runner* r = new Runner;
	return *r;
}

inline int main_(int argc, char** argv)
{
	Args a;
	{
		// the binary's own name (one source may be built into several binaries, e.g. an ASan and a TSan variant)
		const char* b = strrchr(argv[0], '/');
		a.bin = b ? b + 1 : argv[0];
	}
	for (int i = 1; i < argc; i++) {
		std::string k = argv[i];
		auto val = [&]() -> std::string { return i + 1 < argc ? argv[++i] : ""; };
		if (k == "--search")
			a.mode = "search";
		else if (k == "--replay") {
			a.mode = "replay";
			a.replay = val();
		}
		else if (k == "--out")
			a.out = val();
		else if (k == "--last")
			a.last = val();
		else if (k == "--faildir")
			a.faildir = val();
		else if (k == "--tier")
			a.tier = val();
		else if (k == "--seed")
			a.seed = strtoull(val().c_str(), 0, 10);
		else if (k == "--worker")
			a.worker = atoi(val().c_str());
		else if (k == "--workers")
			a.workers = atoi(val().c_str());
		else if (k == "--scale")
			a.scale = atof(val().c_str());
		else if (k == "--part")
			a.part = val();
	}
	setvbuf(stdout, 0, _IOLBF, 0);
#if defined(VF_ASAN) || defined(VF_TSAN)
	__sanitizer_set_death_callback(death_callback); // a sanitizer report leaves the current case on disk
#endif
	signal(SIGTERM, term_handler);
	signal(SIGPIPE, SIG_IGN);
	if (a.mode == "replay") {
		std::ifstream f(a.replay);
		if (!f) {
			fprintf(stderr, "cannot open %s\n", a.replay.c_str());
			return 3;
		}
		std::stringstream ss;
		ss << f.rdbuf();
		std::string text = ss.str(), part = a.part;
		size_t p = text.find("#vf part=");
		if (p != std::string::npos) {
			size_t e = text.find('\n', p);
			part = text.substr(p + 9, e - p - 9);
		}
		Case c = parse(text);
		try {
			vf_run_case(part, c);
		}
		catch (const Failure& f) {
			printf("FAIL %s\n", f.msg.c_str());
			return 1;
		}
		printf("PASS\n");
		return 0;
	}
	if (a.mode == "search") {
		if (!a.last.empty())
			current().fd = open(a.last.c_str(), O_CREAT | O_WRONLY | O_TRUNC, 0644);
		stats().out = a.out;
		runner().args = a;
		vf_search(a);
		stats().dump(true);
		if (runner().failures) {
			printf("FAILED %s\n", runner().first_failure.c_str());
			return 1;
		}
		return 0;
	}
	fprintf(stderr, "usage: %s --search ... | --replay <file>\n", argv[0]);
	return 3;
}

} // namespace vf

#ifndef VF_NO_MAIN
int main(int argc, char** argv) { return vf::main_(argc, argv); }
#endif
