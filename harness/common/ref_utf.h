// Independent UTF-8 / UTF-16 / UTF-32 reference codec (no asl headers), written from the Unicode Standard
// (chapter 3, D92 and table 3-7 "Well-Formed UTF-8 Byte Sequences"; D91 for UTF-16).
// Audited against python's codecs: the digests in ref::utf_audit() were computed with
//
//   import codecs, itertools
//   def fnv(bs, h=1469598103934665603):
//       for b in bs: h = ((h ^ b) * 1099511628211) & (2**64-1)
//       return h
//   h8 = h16 = 1469598103934665603
//   for cp in range(1, 0x110000):
//       if 0xD800 <= cp <= 0xDFFF: continue
//       h8 = fnv(chr(cp).encode('utf-8'), h8); h16 = fnv(chr(cp).encode('utf-16-le'), h16)
//   valid = sum(1 for n in (1,2,3) for t in itertools.product(range(1,256), repeat=n) if ok(bytes(t)))   # ok(b): b.decode("utf-8") succeeds
//
// and the harness recomputes them with this codec at the start of every search (disagreement = infrastructure error).
#pragma once
#include <cstdint>
#include <string>
#include <vector>

namespace ref {

inline bool is_scalar(uint32_t c) { return c <= 0x10FFFF && !(c >= 0xD800 && c <= 0xDFFF); }

// number of Unicode scalar values other than U+0000
static const uint32_t NSCALARS = 0x10FFFF - 0x800; // 1,112,063 (+ U+0000 = 1,112,064)

// k in [0, NSCALARS) -> the k-th non-zero scalar value (any integer can be reduced modulo NSCALARS first)
inline uint32_t nth_scalar(uint64_t k)
{
	uint32_t c = (uint32_t)(k % NSCALARS) + 1;
	return c >= 0xD800 ? c + 0x800 : c;
}

inline int utf8_len(uint32_t c) { return c < 0x80 ? 1 : c < 0x800 ? 2 : c < 0x10000 ? 3 : 4; }

inline void utf8_append(std::string& out, uint32_t c)
{
	if (c <= 0x7F)
		out += (char)c;
	else if (c <= 0x7FF) {
		out += (char)(0xC0 + c / 64);
		out += (char)(0x80 + c % 64);
	}
	else if (c <= 0xFFFF) {
		out += (char)(0xE0 + c / 4096);
		out += (char)(0x80 + c / 64 % 64);
		out += (char)(0x80 + c % 64);
	}
	else {
		out += (char)(0xF0 + c / 262144);
		out += (char)(0x80 + c / 4096 % 64);
		out += (char)(0x80 + c / 64 % 64);
		out += (char)(0x80 + c % 64);
	}
}

inline std::string utf8(const std::vector<uint32_t>& cps)
{
	std::string s;
	for (uint32_t c : cps)
		utf8_append(s, c);
	return s;
}

inline void utf16_append(std::vector<uint16_t>& out, uint32_t c)
{
	if (c < 0x10000)
		out.push_back((uint16_t)c);
	else {
		uint32_t v = c - 0x10000;
		out.push_back((uint16_t)(0xD800 + v / 1024));
		out.push_back((uint16_t)(0xDC00 + v % 1024));
	}
}

inline std::vector<uint16_t> utf16(const std::vector<uint32_t>& cps)
{
	std::vector<uint16_t> w;
	for (uint32_t c : cps)
		utf16_append(w, c);
	return w;
}

// Strict decoder after table 3-7. Returns true and the scalar values iff `s` is well-formed UTF-8.
// If `why` is given it receives the kind of the first defect: 't' truncated (a sequence cut short by the end of the
// string or by a non-continuation byte), 'o' overlong / surrogate / > U+10FFFF second byte, 'l' byte that can never
// start a sequence (80..BF, C0, C1, F5..FF).
inline bool utf8_decode(const std::string& s, std::vector<uint32_t>* out = 0, char* why = 0)
{
	size_t i = 0, n = s.size();
	auto bad = [&](char w) {
		if (why)
			*why = w;
		return false;
	};
	while (i < n) {
		unsigned b0 = (unsigned char)s[i];
		if (b0 < 0x80) {
			if (out)
				out->push_back(b0);
			i++;
			continue;
		}
		int need;
		unsigned lo = 0x80, hi = 0xBF;
		uint32_t c;
		if (b0 >= 0xC2 && b0 <= 0xDF) {
			need = 1;
			c = b0 - 0xC0;
		}
		else if (b0 >= 0xE0 && b0 <= 0xEF) {
			need = 2;
			c = b0 - 0xE0;
			if (b0 == 0xE0)
				lo = 0xA0;
			if (b0 == 0xED)
				hi = 0x9F;
		}
		else if (b0 >= 0xF0 && b0 <= 0xF4) {
			need = 3;
			c = b0 - 0xF0;
			if (b0 == 0xF0)
				lo = 0x90;
			if (b0 == 0xF4)
				hi = 0x8F;
		}
		else
			return bad('l');
		for (int k = 1; k <= need; k++) {
			if (i + k >= n)
				return bad('t');
			unsigned b = (unsigned char)s[i + k];
			if (b < 0x80 || b > 0xBF)
				return bad('t');
			if (k == 1 && (b < lo || b > hi))
				return bad('o');
			c = c * 64 + (b - 0x80);
		}
		if (out)
			out->push_back(c);
		i += need + 1;
	}
	return true;
}

// strict UTF-16 decoder (unpaired surrogates are ill-formed)
inline bool utf16_decode(const std::vector<uint16_t>& w, std::vector<uint32_t>& out)
{
	for (size_t i = 0; i < w.size(); i++) {
		uint32_t u = w[i];
		if (u >= 0xD800 && u <= 0xDBFF) {
			if (i + 1 >= w.size() || w[i + 1] < 0xDC00 || w[i + 1] > 0xDFFF)
				return false;
			out.push_back(0x10000 + (u - 0xD800) * 1024 + (w[i + 1] - 0xDC00));
			i++;
		}
		else if (u >= 0xDC00 && u <= 0xDFFF)
			return false;
		else
			out.push_back(u);
	}
	return true;
}

inline uint64_t fnv_(const void* p, size_t n, uint64_t h)
{
	const unsigned char* b = (const unsigned char*)p;
	for (size_t i = 0; i < n; i++) {
		h ^= b[i];
		h *= 1099511628211ULL;
	}
	return h;
}

struct UtfAudit {
	uint64_t h8, h16, valid3, scalars;
};

// digests of all scalar encodings and the number of well-formed strings among all byte strings of length 1..3
// over bytes 01..FF, recomputed with this codec
inline UtfAudit utf_audit()
{
	UtfAudit a = {1469598103934665603ULL, 1469598103934665603ULL, 0, 0};
	for (uint32_t c = 1; c <= 0x10FFFF; c++) {
		if (!is_scalar(c))
			continue;
		a.scalars++;
		std::string s;
		utf8_append(s, c);
		a.h8 = fnv_(s.data(), s.size(), a.h8);
		std::vector<uint16_t> w;
		utf16_append(w, c);
		for (uint16_t u : w) {
			unsigned char le[2] = {(unsigned char)(u & 255), (unsigned char)(u >> 8)};
			a.h16 = fnv_(le, 2, a.h16);
		}
		// decoder is the inverse of the encoder
		std::vector<uint32_t> back;
		if (!utf8_decode(s, &back) || back.size() != 1 || back[0] != c)
			a.h8 = 0;
		std::vector<uint32_t> back16;
		if (!utf16_decode(w, back16) || back16.size() != 1 || back16[0] != c)
			a.h16 = 0;
	}
	std::string s;
	for (int len = 1; len <= 3; len++) {
		s.assign(len, 1);
		for (;;) {
			if (utf8_decode(s))
				a.valid3++;
			int k = 0;
			while (k < len && (unsigned char)s[k] == 255)
				s[k++] = 1;
			if (k == len)
				break;
			s[k]++;
		}
	}
	return a;
}

// values computed with python 3.x codecs (snippet above): 1,112,063 scalars; 2,615,679 well-formed strings
// (= 127 + 127^2 + 1920 + 127^3 + 2*127*1920 + 61440)
static const uint64_t PY_SCALARS = 1112063ULL;
static const uint64_t PY_H8 = 5891098029139264561ULL;
static const uint64_t PY_H16 = 7386068052806302923ULL;
static const uint64_t PY_VALID3 = 2615679ULL;

inline bool utf_audit_ok(std::string* msg = 0)
{
	UtfAudit a = utf_audit();
	bool ok = a.scalars == PY_SCALARS && a.h8 == PY_H8 && a.h16 == PY_H16 && a.valid3 == PY_VALID3;
	if (!ok && msg)
		*msg = "scalars " + std::to_string(a.scalars) + " h8 " + std::to_string(a.h8) + " h16 " + std::to_string(a.h16) + " valid3 " +
		       std::to_string(a.valid3);
	return ok;
}
} // namespace ref
