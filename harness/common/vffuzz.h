// vffuzz.h -- runtime for libFuzzer targets.  The target defines
//     void vf_fuzz_one(const uint8_t* data, size_t size);
// puts its semantic oracle inside it (VF_ORACLE(cond, msg...)) and marks non-trivial inputs with vf::fz_nt().
// Statistics go to $VF_STATS_OUT in the same JSON format as the rapidcheck harnesses (dumped periodically
// and at exit, because libFuzzer _Exit()s on interrupt and a trap skips atexit).
// Run a saved input again with:  <bin> <file>
#pragma once
#define VF_NO_MAIN
#include "vf.h"
#include <fuzzer/FuzzedDataProvider.h>

void vf_fuzz_one(const uint8_t* data, size_t size);

// unused rc-protocol entry points (this binary has libFuzzer's main)
inline const char* vf_harness_name_unused() { return ""; }

namespace vf {

struct FzState {
	const uint8_t* data = 0;
	size_t size = 0;
	bool init = false;
};
inline FzState& fz()
{
	static FzState s;
	return s;
}
inline void fz_dump() { stats().dump(true); }
inline void fz_nt() { stats().nt(fnv(fz().data, fz().size)); }
inline void fz_nt(uint64_t h) { stats().nt(h); }

[[noreturn]] inline void fz_oracle_fail(const char* file, int line, const char* cond, const std::string& msg)
{
	const char* b = strrchr(file, '/');
	fprintf(stderr, "VF-ORACLE %s:%d: %s -- %s\n", b ? b + 1 : file, line, cond, msg.c_str());
	fflush(stderr);
	fz_dump();
	__builtin_trap();
}

} // namespace vf

#define VF_ORACLE(cond, ...)                                                       \
	do {                                                                             \
		if (!(cond))                                                                 \
			vf::fz_oracle_fail(__FILE__, __LINE__, #cond, vf::str(__VA_ARGS__));     \
	} while (0)

#ifndef VF_FUZZ_OWN_INIT
// asl's global Console object installs SIGINT/SIGTERM handlers that call exit(); libFuzzer never replaces an existing
// handler, so a stop request would end in "fuzz target exited" and a bogus crash- artifact. LLVMFuzzerInitialize runs
// before libFuzzer installs its handlers: give it the default dispositions back.
extern "C" int LLVMFuzzerInitialize(int*, char***)
{
	signal(SIGINT, SIG_DFL);
	signal(SIGTERM, SIG_DFL);
	return 0;
}
#endif

extern "C" int LLVMFuzzerTestOneInput(const uint8_t* data, size_t size)
{
	vf::FzState& s = vf::fz();
	if (!s.init) {
		s.init = true;
		const char* out = getenv("VF_STATS_OUT");
		if (out)
			vf::stats().out = out;
		vf::stats().cap = 2000000;
		atexit(vf::fz_dump);
	}
	s.data = data;
	s.size = size;
	vf::stats().eval();
	try {
		vf_fuzz_one(data, size);
	}
	catch (const vf::Failure& f) {
		vf::fz_oracle_fail("harness", 0, "VF_CHECK", f.msg);
	}
	if (vf::stats().evaluations % 50000 == 0)
		vf::stats().dump(true);
	return 0;
}
