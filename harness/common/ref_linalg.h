// ref_linalg.h -- independent dense linear algebra for the C20 oracles (plain STL, no asl headers).
// Works for any scalar S with + - * / and a pivot preference given by the caller:
//   * exact fields (fp61::Fp): any non-zero pivot is as good as any other (first non-zero is taken);
//   * long double: the entry of largest magnitude in the whole remaining block (full pivoting).
#pragma once
#include <vector>
#include <cstddef>
#include <cmath>

namespace ref {

template <class S>
struct Mat {
	int r = 0, c = 0;
	std::vector<S> a;
	Mat() {}
	Mat(int r_, int c_) : r(r_), c(c_), a((size_t)r_ * c_, S(0)) {}
	S& operator()(int i, int j) { return a[(size_t)i * c + j]; }
	const S& operator()(int i, int j) const { return a[(size_t)i * c + j]; }
	static Mat identity(int n)
	{
		Mat m(n, n);
		for (int i = 0; i < n; i++)
			m(i, i) = S(1);
		return m;
	}
	Mat t() const
	{
		Mat m(c, r);
		for (int i = 0; i < r; i++)
			for (int j = 0; j < c; j++)
				m(j, i) = (*this)(i, j);
		return m;
	}
	friend Mat operator*(const Mat& x, const Mat& y)
	{
		Mat m(x.r, y.c);
		for (int i = 0; i < x.r; i++)
			for (int k = 0; k < x.c; k++) {
				const S& f = x(i, k);
				for (int j = 0; j < y.c; j++)
					m(i, j) = m(i, j) + f * y(k, j);
			}
		return m;
	}
	friend Mat operator-(const Mat& x, const Mat& y)
	{
		Mat m(x.r, x.c);
		for (size_t i = 0; i < m.a.size(); i++)
			m.a[i] = x.a[i] - y.a[i];
		return m;
	}
	bool operator==(const Mat& y) const
	{
		if (r != y.r || c != y.c)
			return false;
		for (size_t i = 0; i < a.size(); i++)
			if (!(a[i] == y.a[i]))
				return false;
		return true;
	}
};

// pivot magnitude: 0 = unusable
inline long double pivot_weight(long double x) { return std::fabs(x); }
template <class S>
inline long double pivot_weight(const S& x) // exact field: all non-zero elements are equally good
{
	return x == S(0) ? 0.0L : 1.0L;
}

// Gauss-Jordan with full pivoting on [A | B]; returns det(A) and leaves A^-1 B in X (if det != 0).
// rank is the number of pivots found.
template <class S>
S gauss_jordan(Mat<S> A, Mat<S> B, Mat<S>* X, int* rank = 0)
{
	int n = A.r;
	std::vector<int> colperm(n);
	for (int i = 0; i < n; i++)
		colperm[i] = i;
	S det = S(1);
	int rk = 0;
	for (int k = 0; k < n; k++) {
		int pi = -1, pj = -1;
		long double best = 0;
		for (int i = k; i < n; i++)
			for (int j = k; j < n; j++) {
				long double w = pivot_weight(A(i, j));
				if (w > best) {
					best = w;
					pi = i;
					pj = j;
				}
			}
		if (pi < 0) {
			det = S(0);
			break;
		}
		rk++;
		if (pi != k) {
			for (int j = 0; j < n; j++)
				std::swap(A(pi, j), A(k, j));
			for (int j = 0; j < B.c; j++)
				std::swap(B(pi, j), B(k, j));
			det = S(0) - det;
		}
		if (pj != k) {
			for (int i = 0; i < n; i++)
				std::swap(A(i, pj), A(i, k));
			std::swap(colperm[pj], colperm[k]);
			det = S(0) - det;
		}
		S p = A(k, k);
		det = det * p;
		S ip = S(1) / p;
		for (int j = 0; j < n; j++)
			A(k, j) = A(k, j) * ip;
		for (int j = 0; j < B.c; j++)
			B(k, j) = B(k, j) * ip;
		for (int i = 0; i < n; i++) {
			if (i == k)
				continue;
			S f = A(i, k);
			if (f == S(0))
				continue;
			for (int j = 0; j < n; j++)
				A(i, j) = A(i, j) - f * A(k, j);
			for (int j = 0; j < B.c; j++)
				B(i, j) = B(i, j) - f * B(k, j);
		}
	}
	if (rank)
		*rank = rk;
	if (X && rk == n) {
		// undo the column permutation: unknown colperm[k] is in row k
		*X = Mat<S>(n, B.c);
		for (int k = 0; k < n; k++)
			for (int j = 0; j < B.c; j++)
				(*X)(colperm[k], j) = B(k, j);
	}
	return det;
}

template <class S>
S det(const Mat<S>& A)
{
	return gauss_jordan<S>(A, Mat<S>(A.r, 0), 0);
}

template <class S>
bool inverse(const Mat<S>& A, Mat<S>& X)
{
	int rk = 0;
	gauss_jordan<S>(A, Mat<S>::identity(A.r), &X, &rk);
	return rk == A.r;
}

inline long double frob(const Mat<long double>& A)
{
	long double s = 0;
	for (auto v : A.a)
		s += v * v;
	return std::sqrt(s);
}

inline long double maxabs(const Mat<long double>& A)
{
	long double s = 0;
	for (auto v : A.a) {
		if (v != v)
			return v; // NaN propagates
		if (std::fabs(v) > s)
			s = std::fabs(v);
	}
	return s;
}

} // namespace ref
