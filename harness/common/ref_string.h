// ref_string.h -- byte-string reference model for C03 (plain STL, no asl headers).
// Every function states the documented meaning of the asl::String operation it models.
#pragma once
#include <cstdint>
#include <cstdio>
#include <string>
#include <vector>
#include <map>

namespace ref {

// SplitMix64 (same algorithm as ref_codec.h; kept here so that this header stands alone)
struct Mix {
	uint64_t s;
	explicit Mix(uint64_t seed) : s(seed) {}
	uint64_t next()
	{
		uint64_t z = (s += 0x9e3779b97f4a7c15ULL);
		z = (z ^ (z >> 30)) * 0xbf58476d1ce4e5b9ULL;
		z = (z ^ (z >> 27)) * 0x94d049bb133111ebULL;
		return z ^ (z >> 31);
	}
	uint64_t below(uint64_t n) { return n ? next() % n : 0; }
};

inline bool is_space(unsigned char c) { return c == ' ' || c == '\n' || c == '\r' || c == '\t'; }

// split(sep), sep non-empty: pieces between non-overlapping occurrences found left to right; always >= 1 piece
inline std::vector<std::string> split(const std::string& s, const std::string& sep)
{
	std::vector<std::string> out;
	size_t i = 0;
	for (;;) {
		size_t j = s.find(sep, i);
		if (j == std::string::npos) {
			out.push_back(s.substr(i));
			break;
		}
		out.push_back(s.substr(i, j - i));
		i = j + sep.size();
	}
	return out;
}

inline std::string join(const std::vector<std::string>& v, const std::string& sep)
{
	std::string r;
	for (size_t i = 0; i < v.size(); i++) {
		if (i)
			r += sep;
		r += v[i];
	}
	return r;
}

// split(): maximal runs of non-whitespace (space, \n, \r, \t)
inline std::vector<std::string> split_ws(const std::string& s)
{
	std::vector<std::string> out;
	size_t i = 0, n = s.size();
	while (i < n) {
		while (i < n && is_space((unsigned char)s[i]))
			i++;
		size_t j = i;
		while (j < n && !is_space((unsigned char)s[j]))
			j++;
		if (j > i)
			out.push_back(s.substr(i, j - i));
		i = j;
	}
	return out;
}

// split(sep1, sep2): pairs cut by sep1, each "key sep2 value" with a non-empty key; a later pair overrides an earlier one
inline std::map<std::string, std::string> split_dic(const std::string& s, const std::string& sep1, const std::string& sep2)
{
	std::map<std::string, std::string> d;
	for (auto& p : split(s, sep1)) {
		size_t j = p.find(sep2);
		if (j != std::string::npos && j > 0)
			d[p.substr(0, j)] = p.substr(j + sep2.size());
	}
	return d;
}

// replace(a, b), a non-empty: every non-overlapping occurrence found left to right
inline std::string replace_all(const std::string& s, const std::string& a, const std::string& b)
{
	std::string r;
	size_t i = 0;
	for (;;) {
		size_t j = s.find(a, i);
		if (j == std::string::npos) {
			r.append(s, i, std::string::npos);
			break;
		}
		r.append(s, i, j - i);
		r += b;
		i = j + a.size();
	}
	return r;
}

inline std::string trimmed(const std::string& s)
{
	size_t i = 0, j = s.size();
	while (i < j && is_space((unsigned char)s[i]))
		i++;
	while (j > i && is_space((unsigned char)s[j - 1]))
		j--;
	return s.substr(i, j - i);
}

// substr(i, n): "starting at position i with at most n chars, if i is negative it counts from the end"; -len <= i, n >= 0
inline std::string substr_at(const std::string& s, long i, long n)
{
	long len = (long)s.size();
	if (i < 0)
		i += len;
	if (i > len)
		i = len;
	long j = i + n;
	if (j > len)
		j = len;
	return s.substr((size_t)i, (size_t)(j - i));
}

inline long last_index_of(const std::string& s, const std::string& pat)
{
	size_t p = s.rfind(pat);
	return p == std::string::npos ? -1 : (long)p;
}

// decimal text of integers, written digit by digit (independent of printf and of the library's itoa)
inline std::string dec_u64(uint64_t v)
{
	if (v == 0)
		return "0";
	std::string r;
	while (v) {
		r.insert(r.begin(), char('0' + v % 10));
		v /= 10;
	}
	return r;
}
inline std::string dec_i64(int64_t v)
{
	if (v >= 0)
		return dec_u64((uint64_t)v);
	return "-" + dec_u64(0 - (uint64_t)v);
}
// strict inverse: optional '-', digits only; value modulo 2^64
inline bool parse_dec(const std::string& t, bool& neg, uint64_t& mag)
{
	size_t i = 0;
	neg = false;
	if (i < t.size() && t[i] == '-') {
		neg = true;
		i++;
	}
	if (i >= t.size())
		return false;
	mag = 0;
	for (; i < t.size(); i++) {
		if (t[i] < '0' || t[i] > '9')
			return false;
		uint64_t d = (uint64_t)(t[i] - '0');
		if (mag > (UINT64_MAX - d) / 10)
			return false;
		mag = mag * 10 + d;
	}
	return true;
}

} // namespace ref
