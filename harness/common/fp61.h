// fp61.h -- exact arithmetic in the prime field GF(p), p = 2^61 - 1, usable as the scalar type of
// asl::Matrix4_<T>, Matrix3_<T>, Matrix_<T>, solve() and Quaternion_<T>.  No asl headers.
//
// * + - * / are field operations (division by the Fermat inverse x^(p-2)); division by zero yields 0 and is
//   counted in fp61::div_by_zero (the harness turns a non-zero count into a failure: a correct elimination over a
//   field never divides by a zero pivot of a nonsingular matrix);
// * conversions from every integral type (value mod p, negatives wrap) and from floating types (dyadic rationals
//   m * 2^e are mapped to m * 2^e in the field, so 0.5 is the inverse of 2 and -1.0f is p - 1);
// * fabs(x) is the identity and the comparison operators rank 0 below every non-zero element and non-zero elements by
//   a bijective 64-bit mix of (value XOR fp61::order_salt).  It is a strict total order for every salt, so "the row
//   with the largest |entry|" is well defined, never a zero row when a non-zero one exists, and otherwise an
//   arbitrary row that the case controls through the salt: whichever rows partial pivoting picks is generated.
#pragma once
#include <cstdint>
#include <cmath>
#include <ostream>
#include <type_traits>

namespace fp61 {

static const uint64_t P = (1ULL << 61) - 1;

inline uint64_t& order_salt()
{
	static uint64_t s = 0;
	return s;
}
inline uint64_t& div_by_zero()
{
	static uint64_t n = 0;
	return n;
}

inline uint64_t mix64(uint64_t z) // splitmix64 finaliser: a bijection of 64-bit words
{
	z = (z ^ (z >> 30)) * 0xbf58476d1ce4e5b9ULL;
	z = (z ^ (z >> 27)) * 0x94d049bb133111ebULL;
	return z ^ (z >> 31);
}

inline uint64_t reduce(unsigned __int128 t)
{
	uint64_t r = (uint64_t)(t & P) + (uint64_t)(t >> 61); // < 2^61 + 2^67: fold again
	r = (r & P) + (r >> 61);
	return r >= P ? r - P : r;
}
inline uint64_t mulmod(uint64_t a, uint64_t b) { return reduce((unsigned __int128)a * b); }
inline uint64_t powmod(uint64_t a, uint64_t e)
{
	uint64_t r = 1;
	while (e) {
		if (e & 1)
			r = mulmod(r, a);
		a = mulmod(a, a);
		e >>= 1;
	}
	return r;
}

struct Fp {
	uint64_t v; // canonical representative 0 .. p-1
	Fp() : v(0) {}
	template <class I, typename std::enable_if<std::is_integral<I>::value, int>::type = 0>
	Fp(I x)
	{
		if (std::is_signed<I>::value && x < 0) {
			// -(x+1) cannot overflow
			uint64_t m = (uint64_t)(-(long long)(x + 1)) + 1ULL;
			m %= P;
			v = m ? P - m : 0;
		}
		else
			v = (uint64_t)x % P;
	}
	template <class F, typename std::enable_if<std::is_floating_point<F>::value, long>::type = 0>
	Fp(F x)
	{
		// x = m * 2^e with an integer m of at most 64 bits
		int e = 0;
		long double fr = std::frexp((long double)x, &e); // x = fr * 2^e, 0.5 <= |fr| < 1
		long double m = std::ldexp(fr, 63);
		e -= 63;
		bool neg = m < 0;
		if (neg)
			m = -m;
		uint64_t mi = (uint64_t)m;
		while (mi && !(mi & 1) && e < 0) {
			mi >>= 1;
			e++;
		}
		uint64_t r = mi % P;
		if (e > 0)
			r = mulmod(r, powmod(2, (uint64_t)e));
		else if (e < 0)
			r = mulmod(r, powmod(powmod(2, P - 2), (uint64_t)(-e)));
		v = neg && r ? P - r : r;
	}
	static Fp raw(uint64_t x)
	{
		Fp r;
		r.v = x % P;
		return r;
	}
	bool zero() const { return v == 0; }
	Fp inv() const
	{
		if (v == 0) {
			div_by_zero()++;
			return Fp();
		}
		return raw(powmod(v, P - 2));
	}
	Fp operator-() const { return raw(v ? P - v : 0); }
	Fp& operator+=(const Fp& b)
	{
		v += b.v;
		if (v >= P)
			v -= P;
		return *this;
	}
	Fp& operator-=(const Fp& b)
	{
		v = v >= b.v ? v - b.v : v + P - b.v;
		return *this;
	}
	Fp& operator*=(const Fp& b)
	{
		v = mulmod(v, b.v);
		return *this;
	}
	Fp& operator/=(const Fp& b)
	{
		v = mulmod(v, b.inv().v);
		return *this;
	}
	friend Fp operator+(Fp a, const Fp& b) { return a += b; }
	friend Fp operator-(Fp a, const Fp& b) { return a -= b; }
	friend Fp operator*(Fp a, const Fp& b) { return a *= b; }
	friend Fp operator/(Fp a, const Fp& b) { return a /= b; }
	friend bool operator==(const Fp& a, const Fp& b) { return a.v == b.v; }
	friend bool operator!=(const Fp& a, const Fp& b) { return a.v != b.v; }
	// generated total order: 0 lowest, the rest by a salted bijective mix
	static uint64_t rank(const Fp& a) { return mix64(a.v ^ order_salt()); }
	friend bool operator<(const Fp& a, const Fp& b)
	{
		if (a.v == 0)
			return b.v != 0;
		if (b.v == 0)
			return false;
		return rank(a) < rank(b);
	}
	friend bool operator>(const Fp& a, const Fp& b) { return b < a; }
	friend bool operator<=(const Fp& a, const Fp& b) { return !(b < a); }
	friend bool operator>=(const Fp& a, const Fp& b) { return !(a < b); }
	friend std::ostream& operator<<(std::ostream& o, const Fp& a) { return o << a.v; }
};

inline Fp fabs(const Fp& x) { return x; }
inline Fp abs(const Fp& x) { return x; }

// square root in GF(p), p = 3 (mod 4): r = a^((p+1)/4) when a is a quadratic residue
inline bool sqrt(const Fp& a, Fp& r)
{
	r = Fp::raw(powmod(a.v, (P + 1) / 4));
	return r * r == a;
}

} // namespace fp61
