// C03 -- asl::String against a std::string model: op histories over 3 heap-allocated String slots (part "hist"),
// integer -> text -> integer identities (part "num"), printf-style construction against snprintf (part "fmt").
#include "common/vfrc.h"
#include "common/ref_string.h"
#include <asl/String.h>
#include <asl/Array.h>
#include <asl/Map.h>
#include <climits>
#include <cmath>
#include <memory>

using namespace asl;

const char* vf_harness_name() { return "C03_string"; }

static std::string S(const String& s) { return std::string(*s, (size_t)s.length()); }

// NUL-terminated text in an exact-size heap block: reading past the terminator hits an ASan redzone
struct ExactC {
	char* p;
	explicit ExactC(const std::string& s) : p((char*)malloc(s.size() + 1))
	{
		memcpy(p, s.data(), s.size());
		p[s.size()] = 0;
	}
	~ExactC() { free(p); }
	ExactC(const ExactC&) = delete;
};
// n bytes without terminator in an exact-size heap block
struct ExactN {
	char* p;
	explicit ExactN(const std::string& s) : p((char*)malloc(s.size() ? s.size() : 1))
	{
		if (!s.empty())
			memcpy(p, s.data(), s.size());
	}
	~ExactN() { free(p); }
	ExactN(const ExactN&) = delete;
};

static const long MAXLEN = 1 << 17; // appends that would make a slot longer are skipped (histories can double 80 times)

// what happened in the case being executed (for the non-trivial rule and the class counters)
struct Trace {
	int in2heap = 0, grow_small = 0, grow_big = 0;
	int self_append = 0, self_append_grow = 0, self_tail_append = 0, self_tail_append_grow = 0;
	int self_assign = 0, self_tail_assign = 0, self_tail_overlap = 0, self_sub_assign = 0;
	int boundary = 0, exact_full = 0, executed = 0, skipped = 0;
	int found = 0, notfound = 0, split_multi = 0, replaced = 0;
	int fmt_retry_ctor = 0, fmt_retry_f = 0;
	std::map<std::string, int> ops, cls;
};
static Trace g_tr;
static bool g_count = false; // set by the search for the first execution of a generated case

static bool is_boundary(size_t n)
{
	return (n >= 14 && n <= 17) || (n >= 19 && n <= 25) || (n >= 1022 && n <= 1026) || n == 47 || n == 48;
}

static void chk(const String& s, const std::string& m, const char* what)
{
	int len = s.length();
	const char* p = *s;
	size_t z = strlen(p);
	VF_CHECK(len == (int)m.size(), what, ": length() = ", len, ", model length ", m.size(), "; got ", vf::show(std::string(p, z), 60), " want ", vf::show(m, 60));
	VF_CHECK(z == (size_t)len, what, ": terminating NUL at offset ", z, " but length() = ", len);
	VF_CHECK(memcmp(p, m.data(), m.size()) == 0, what, ": bytes differ: got ", vf::show(S(s), 60), " want ", vf::show(m, 60));
	VF_CHECK(len < s.cap(), what, ": length() ", len, " >= capacity ", s.cap());
}

struct World {
	String* s[3];
	std::string m[3];
	World()
	{
		for (int i = 0; i < 3; i++)
			s[i] = new String; // heap object: the 16 inline bytes end exactly at the end of the 24-byte block
	}
	~World()
	{
		for (int i = 0; i < 3; i++)
			delete s[i];
	}
	void put(int d, String* n, const std::string& model)
	{
		delete s[d];
		s[d] = n;
		m[d] = model;
	}
	void check_all(const char* after)
	{
		for (int i = 0; i < 3; i++) {
			std::string w = std::string("slot ") + char('0' + i) + " after " + after;
			chk(*s[i], m[i], w.c_str());
			if (is_boundary(m[i].size()))
				g_tr.boundary++;
			if ((int)m[i].size() + 1 == s[i]->cap())
				g_tr.exact_full++;
		}
	}
};

static char nzc(long long v) { return (char)(1 + (v < 0 ? -v : v) % 255); }

static std::string cyc(const std::string& fill, size_t n)
{
	std::string r(n, 'x');
	if (!fill.empty())
		for (size_t i = 0; i < n; i++)
			r[i] = fill[i % fill.size()];
	return r;
}

// text argument: literal (mode 0,1), piece of the subject's current content at p (2), prefix of length q (3), suffix (4)
static std::string text_arg(const std::string& subject, const std::string& lit, long long mode, long long p, long long q, bool nonEmpty)
{
	std::string r;
	size_t len = subject.size();
	size_t qq = (size_t)(1 + q % 6);
	switch (mode % 5) {
	case 2: r = subject.substr((size_t)p % (len + 1), qq); break;
	case 3: r = subject.substr(0, qq); break;
	case 4: r = subject.substr(len > qq ? len - qq : 0); break;
	default: r = lit;
	}
	if (r.empty())
		r = lit;
	if (r.empty() && nonEmpty)
		r = ",";
	return r;
}

static std::string num_text(int kind, long long v, String* out, String* assignTo, String* appendTo)
{
	char b[64];
	switch (kind) {
	case 0: {
		int x = (int)v;
		if (out) *out = String(x);
		if (assignTo) *assignTo = x;
		if (appendTo) *appendTo << x;
		return ref::dec_i64(x);
	}
	case 1: {
		unsigned x = (unsigned)v;
		if (out) *out = String(x);
		if (assignTo) *assignTo = x;
		if (appendTo) *appendTo << x;
		return ref::dec_u64(x);
	}
	case 2: {
		Long x = (Long)v;
		if (out) *out = String(x);
		if (assignTo) *assignTo = x;
		if (appendTo) *appendTo << x;
		return ref::dec_i64(x);
	}
	case 3: {
		ULong x = (ULong)v;
		if (out) *out = String(x);
		if (assignTo) *assignTo = x;
		if (appendTo) *appendTo << x;
		return ref::dec_u64(x);
	}
	case 4: {
		float x;
		if (v & 1) {
			unsigned u = (unsigned)(v >> 1);
			memcpy(&x, &u, 4);
		}
		else
			x = (float)((v >> 1) % 2000001 - 1000000) / 64.0f;
		if (out) *out = String(x);
		if (assignTo) *assignTo = x;
		if (appendTo) *appendTo << x;
		snprintf(b, sizeof b, "%.7g", x);
		return b;
	}
	case 5: {
		double x;
		if (v & 1) {
			unsigned long long u = (unsigned long long)v * 0x9e3779b97f4a7c15ULL;
			memcpy(&x, &u, 8);
		}
		else
			x = (double)((v >> 1) % 2000000001LL - 1000000000LL) / 4096.0;
		if (out) *out = String(x);
		if (assignTo) *assignTo = x;
		if (appendTo) *appendTo << x;
		snprintf(b, sizeof b, "%.15g", x);
		return b;
	}
	case 6: {
		bool x = (v & 1) != 0;
		if (out) *out = String(x);
		if (assignTo) *assignTo = x;
		if (appendTo) *appendTo << x;
		return x ? "true" : "false";
	}
	default: {
		char x = nzc(v);
		if (out) *out = String(x);
		if (assignTo) *assignTo = x;
		if (appendTo) *appendTo << x;
		return std::string(1, x);
	}
	}
}

static int sgn(int x) { return x < 0 ? -1 : x > 0 ? 1 : 0; }

static void hist_op(World& w, const vf::Op& o)
{
	const std::string& n = o.name;
	auto U = [&o](size_t k) -> long long { // position/flag arguments: non-negative whatever the file says
		long long x = o.i(k);
		return x < 0 ? ~x : x;
	};
	int d = (int)(U(0) % 3);
	String& s = *w.s[d];
	std::string& m = w.m[d];
	const long len = (long)m.size();
	g_tr.ops[n]++;
	g_tr.executed++;

	auto store = [&](long long r, const String& t, const std::string& model, const char* what) {
		chk(t, model, what);
		r %= 4;
		if (r < 3) {
			*w.s[r] = t;
			w.m[r] = model;
		}
	};

	// ---- construction (the slot object is replaced by the newly constructed one)
	if (n == "new_c") {
		ExactC c(o.str(0));
		w.put(d, new String(c.p), o.str(0));
	}
	else if (n == "new_n") {
		size_t k = (size_t)U(1) % (o.str(0).size() + 1);
		std::string t = o.str(0).substr(0, k);
		ExactN c(t);
		w.put(d, new String(c.p, (int)k), t);
	}
	else if (n == "new_ch") {
		char c = nzc(U(1));
		w.put(d, new String(c), std::string(1, c));
	}
	else if (n == "new_rep") {
		char c = nzc(U(1));
		int k = (int)(U(2) % 3001);
		if (U(3) & 1)
			w.put(d, new String(c, k), std::string((size_t)k, c));
		else
			w.put(d, new String(String::repeat(c, k)), std::string((size_t)k, c));
	}
	else if (n == "new_arr") {
		const std::string& t = o.str(0);
		if (U(1) & 1) {
			Array<char> a((int)t.size());
			if (!t.empty())
				memcpy(a.data(), t.data(), t.size());
			w.put(d, new String(a), t);
		}
		else {
			ByteArray a((int)t.size());
			if (!t.empty())
				memcpy(a.data(), t.data(), t.size());
			w.put(d, new String(a), t);
		}
	}
	else if (n == "new_cap") {
		int cap = (int)(U(1) % 3001), k = (int)(U(2) % 3001);
		String* t = new String(cap, k);
		std::string model = cyc(o.str(0), (size_t)k);
		bool ok = t->length() == k && (*t)[k] == '\0' && t->cap() > (cap > k ? cap : k);
		if (ok)
			memcpy(t->data(), model.data(), model.size());
		else
			model.clear();
		int gotlen = t->length(), gotcap = t->cap();
		w.put(d, ok ? t : (delete t, new String), model);
		VF_CHECK(ok, "String(cap=", cap, ", n=", k, "): length() ", gotlen, " cap() ", gotcap, " or no terminator at n");
	}
	else if (n == "new_copy") {
		int j = (int)(U(1) % 3);
		std::string model = w.m[j];
		w.put(d, new String(*w.s[j]), model);
	}
	else if (n == "new_num") {
		String* t = new String;
		std::string model = num_text((int)(U(1) % 8), o.i(2), t, 0, 0);
		w.put(d, t, model);
	}
	else if (n == "new_fmt") {
		int j = (int)(U(2) % 3);
		int k = (int)o.i(3);
		if ((long)w.m[j].size() + len > MAXLEN) {
			g_tr.skipped++;
			return;
		}
		std::string model = w.m[j] + ":" + ref::dec_i64(k) + ":" + m;
		static const int n0s[] = {0, 1, 15, 16, 17, 20, 24, 100, 1000};
		if (U(1) % 10 == 9)
			w.put(d, new String(String::f("%s:%i:%s", **w.s[j], k, *s)), model);
		else
			w.put(d, new String(n0s[U(1) % 9], "%s:%i:%s", **w.s[j], k, *s), model);
	}
	// ---- assignment
	else if (n == "as_s") {
		int j = (int)(U(1) % 3);
		if (j == d && len > 0)
			g_tr.self_assign++;
		std::string model = w.m[j];
		s = *w.s[j];
		m = model;
	}
	else if (n == "as_c") {
		ExactC c(o.str(0));
		if (U(1) & 1)
			s = (char*)c.p;
		else
			s = (const char*)c.p;
		m = o.str(0);
	}
	else if (n == "as_tail") {
		long k = (long)(U(1) % (len + 1));
		if (k > 0 && k < len) {
			g_tr.self_tail_assign++;
			if (k < len - k)
				g_tr.self_tail_overlap++;
		}
		std::string model = m.substr((size_t)k);
		s = *s + k;
		m = model;
	}
	else if (n == "as_sub") {
		long i = (long)(U(1) % (len + 1)), j = (long)(U(2) % (len + 1));
		if (i > j)
			std::swap(i, j);
		if (len > 0)
			g_tr.self_sub_assign++;
		std::string model = m.substr((size_t)i, (size_t)(j - i));
		s = s.substring((int)i, (int)j);
		m = model;
	}
	else if (n == "as_num") {
		m = num_text((int)(U(1) % 8), o.i(2), 0, &s, 0);
	}
	else if (n == "assign") {
		if (U(1) & 1) {
			long k = (long)(U(2) % (len + 1)), c = (long)(U(3) % (len - k + 1));
			if (c > 0)
				g_tr.self_tail_assign++;
			std::string model = m.substr((size_t)k, (size_t)c);
			s.assign(*s + k, (int)c);
			m = model;
		}
		else {
			ExactN c(o.str(0));
			s.assign(c.p, (int)o.str(0).size());
			m = o.str(0);
		}
	}
	// ---- append
	else if (n == "ap_s") {
		int j = (int)(U(1) % 3);
		long add = (long)w.m[j].size();
		if (len + add > MAXLEN) {
			g_tr.skipped++;
			return;
		}
		if (j == d && len > 0) {
			g_tr.self_append++;
			if (len + add >= s.cap())
				g_tr.self_append_grow++;
		}
		std::string model = m + w.m[j];
		if (U(2) & 1)
			s << *w.s[j];
		else
			s += *w.s[j];
		m = model;
	}
	else if (n == "ap_c") {
		ExactC c(o.str(0));
		if (U(1) & 1)
			s << (const char*)c.p;
		else
			s += (const char*)c.p;
		m += o.str(0);
	}
	else if (n == "ap_tail") {
		long k = (long)(U(1) % (len + 1));
		if (2 * len - k > MAXLEN) {
			g_tr.skipped++;
			return;
		}
		if (k < len) {
			g_tr.self_tail_append++;
			if (2 * len - k >= s.cap())
				g_tr.self_tail_append_grow++;
		}
		std::string model = m + m.substr((size_t)k);
		if (U(2) & 1)
			s << (*s + k);
		else
			s += *s + k;
		m = model;
	}
	else if (n == "ap_ch") {
		char c = nzc(U(1));
		if (U(2) & 1)
			s << c;
		else
			s += c;
		m += c;
	}
	else if (n == "ap_num") {
		std::string t = num_text((int)(U(1) % 8), o.i(2), 0, 0, &s);
		m += t;
	}
	else if (n == "append") {
		if (U(1) & 1) {
			long k = (long)(U(2) % (len + 1)), c = (long)(U(3) % (len - k + 1));
			if (len + c > MAXLEN) {
				g_tr.skipped++;
				return;
			}
			if (c > 0) {
				g_tr.self_tail_append++;
				if (len + c >= s.cap())
					g_tr.self_tail_append_grow++;
			}
			std::string model = m + m.substr((size_t)k, (size_t)c);
			s.append(*s + k, (int)c);
			m = model;
		}
		else {
			ExactN c(o.str(0));
			s.append(c.p, (int)o.str(0).size());
			m += o.str(0);
		}
	}
	// ---- concatenation into a new value
	else if (n == "cat") {
		int j = (int)(U(1) % 3);
		char c = nzc(U(4));
		const std::string& t = o.str(0);
		if (len + (long)w.m[j].size() > MAXLEN) {
			g_tr.skipped++;
			return;
		}
		switch (U(3) % 6) {
		case 0: store(U(2), s + *w.s[j], m + w.m[j], "String + String"); break;
		case 1: {
			ExactC e(t);
			store(U(2), s + (const char*)e.p, m + t, "String + const char*");
			break;
		}
		case 2: store(U(2), s + c, m + c, "String + char"); break;
		case 3: {
			ExactC e(t);
			store(U(2), (const char*)e.p + s, t + m, "const char* + String");
			break;
		}
		case 4: store(U(2), c + s, c + m, "char + String"); break;
		default: {
			ExactN e(t);
			store(U(2), s.concat(e.p, (int)t.size()), m + t, "concat(ptr, n)");
		}
		}
	}
	else if (n == "cat_tail") {
		long k = (long)(U(1) % (len + 1));
		if (2 * len > MAXLEN) {
			g_tr.skipped++;
			return;
		}
		if (U(3) & 1) {
			long c = (long)(U(4) % (len - k + 1));
			store(U(2), s.concat(*s + k, (int)c), m + m.substr((size_t)k, (size_t)c), "concat(piece of itself)");
		}
		else
			store(U(2), s + (*s + k), m + m.substr((size_t)k), "String + tail of itself");
	}
	// ---- substrings
	else if (n == "substring") {
		long i = (long)(U(1) % (len + 1)), j = (long)(U(2) % (len + 1));
		if (i > j)
			std::swap(i, j);
		if (U(4) & 1)
			store(U(3), s.substring((int)i), m.substr((size_t)i), "substring(i)");
		else
			store(U(3), s.substring((int)i, (int)j), m.substr((size_t)i, (size_t)(j - i)), "substring(i,j)");
	}
	else if (n == "substr") {
		long i = (long)(U(1) % (2 * len + 1)) - len; // -len .. len
		long c = (long)(U(2) % (len + 4));
		if ((U(4) >> 1) % 4 == 3) { // "at most n chars" with a huge n: the rest of the string
			c = INT_MAX - (long)(U(2) % 3);
			g_tr.cls["hist.substr_huge_count"]++;
		}
		if (U(4) & 1)
			store(U(3), s.substr((int)i), ref::substr_at(m, i, len), "substr(i)");
		else
			store(U(3), s.substr((int)i, (int)c), ref::substr_at(m, i, c), "substr(i,n)");
	}
	// ---- search
	else if (n == "idx_c") {
		char c = (U(3) & 1) && len > 0 ? m[(size_t)U(1) % (size_t)len] : nzc(U(1));
		long i0 = (long)(U(2) % (len + 1));
		size_t f = m.find(c, (size_t)i0), f0 = m.find(c), fl = m.rfind(c);
		(f0 == std::string::npos ? g_tr.notfound : g_tr.found)++;
		int want = f == std::string::npos ? -1 : (int)f, want0 = f0 == std::string::npos ? -1 : (int)f0;
		VF_CHECK(s.indexOf(c, (int)i0) == want, "indexOf(char ", (int)(unsigned char)c, ", ", i0, ") = ", s.indexOf(c, (int)i0), " want ", want, " in ", vf::show(m));
		VF_CHECK(s.indexOf(c) == want0, "indexOf(char) = ", s.indexOf(c), " want ", want0);
		VF_CHECK(s.contains(c) == (want0 >= 0), "contains(char)");
		VF_CHECK(s.lastIndexOf(c) == (fl == std::string::npos ? -1 : (int)fl), "lastIndexOf(char ", (int)(unsigned char)c, ") = ", s.lastIndexOf(c), " in ", vf::show(m));
		VF_CHECK(s.startsWith(c) == (len > 0 && m[0] == c), "startsWith(char)");
		VF_CHECK(s.endsWith(c) == (len > 0 && m[(size_t)len - 1] == c), "endsWith(char)");
	}
	else if (n == "idx_s") {
		std::string pat = text_arg(m, o.str(0), U(2), U(3), U(4), true);
		long i0 = (long)(U(1) % (len + 1));
		ExactC c(pat);
		std::unique_ptr<String> psp(new String(c.p)); // argument objects live on the heap too (inline storage at a block end)
		const String& ps = *psp;
		size_t f = m.find(pat, (size_t)i0), f0 = m.find(pat);
		int want = f == std::string::npos ? -1 : (int)f, want0 = f0 == std::string::npos ? -1 : (int)f0;
		(want0 < 0 ? g_tr.notfound : g_tr.found)++;
		VF_CHECK(s.indexOf((const char*)c.p, (int)i0) == want, "indexOf(", vf::show(pat), ", ", i0, ") = ", s.indexOf((const char*)c.p, (int)i0), " want ", want, " in ", vf::show(m));
		VF_CHECK(s.indexOf(ps, (int)i0) == want, "indexOf(String ", vf::show(pat), ", ", i0, ")");
		VF_CHECK(s.indexOf((const char*)c.p) == want0 && s.indexOf(ps) == want0, "indexOf(", vf::show(pat), ") want ", want0);
		VF_CHECK(s.contains((const char*)c.p) == (want0 >= 0) && s.contains(ps) == (want0 >= 0), "contains(", vf::show(pat), ")");
		int wl = (int)ref::last_index_of(m, pat);
		VF_CHECK(s.lastIndexOf((const char*)c.p) == wl, "lastIndexOf(", vf::show(pat), ") = ", s.lastIndexOf((const char*)c.p), " want ", wl, " in ", vf::show(m));
		bool sw = m.size() >= pat.size() && m.compare(0, pat.size(), pat) == 0;
		bool ew = m.size() >= pat.size() && m.compare(m.size() - pat.size(), pat.size(), pat) == 0;
		if (sw || ew)
			g_tr.cls["hist.starts_or_ends_true"]++;
		VF_CHECK(s.startsWith(ps) == sw && s.startsWith((const char*)c.p) == sw, "startsWith(", vf::show(pat), ") want ", sw, " on ", vf::show(m));
		VF_CHECK(s.endsWith(ps) == ew && s.endsWith((const char*)c.p) == ew, "endsWith(", vf::show(pat), ") want ", ew, " on ", vf::show(m));
	}
	// ---- split / join
	else if (n == "split") {
		std::string sep = text_arg(m, o.str(0), U(1), U(2), U(3), true);
		ExactC c(sep);
		std::unique_ptr<String> ssp(new String(c.p));
		const String& ss = *ssp;
		std::vector<std::string> want = ref::split(m, sep);
		Array<String> got;
		if (U(4) & 1) {
			got << "junk" << s; // the out-parameter overload must replace previous contents
			s.split(ss, got);
		}
		else
			got = s.split(ss);
		if (want.size() > 1)
			g_tr.split_multi++;
		VF_CHECK(got.length() == (int)want.size(), "split(", vf::show(sep), ") gave ", got.length(), " pieces, want ", want.size(), " for ", vf::show(m));
		for (int i = 0; i < got.length(); i++)
			chk(got[i], want[(size_t)i], "piece of split(sep)");
		String back = got.join(ss);
		chk(back, m, "split(sep).join(sep)");
	}
	else if (n == "split_ws") {
		std::vector<std::string> want = ref::split_ws(m);
		Array<String> got;
		if (U(1) & 1)
			s.split(got);
		else
			got = s.split();
		if (want.size() > 1)
			g_tr.split_multi++;
		VF_CHECK(got.length() == (int)want.size(), "split() gave ", got.length(), " pieces, want ", want.size(), " for ", vf::show(m));
		for (int i = 0; i < got.length(); i++)
			chk(got[i], want[(size_t)i], "piece of split()");
	}
	else if (n == "split2") {
		std::string s1 = text_arg(m, o.str(0), U(1), U(2), U(3), true), s2 = text_arg(m, o.str(1), U(4), U(5), U(6), true);
		std::map<std::string, std::string> want = ref::split_dic(m, s1, s2);
		std::unique_ptr<String> p1(new String(s1.c_str())), p2(new String(s2.c_str()));
		Dic<String> got = s.split(*p1, *p2);
		if (!want.empty())
			g_tr.cls["hist.split2_nonempty"]++;
		VF_CHECK(got.length() == (int)want.size(), "split(", vf::show(s1), ",", vf::show(s2), ") has ", got.length(), " entries, want ", want.size(), " for ", vf::show(m));
		for (auto& kv : want) {
			String k(kv.first.c_str());
			VF_CHECK(got.has(k), "split(sep1,sep2): key ", vf::show(kv.first), " missing");
			chk(got[k], kv.second, "value of split(sep1,sep2)");
		}
	}
	else if (n == "join3") {
		std::string sep = o.str(0).empty() ? "," : o.str(0);
		if ((long)(w.m[0].size() + w.m[1].size() + w.m[2].size() + 2 * m.size()) > MAXLEN) {
			g_tr.skipped++;
			return;
		}
		Array<String> a;
		if (U(2) % 8 >= 4) { // 0..2 elements
			std::unique_ptr<String> ps(new String(sep.c_str()));
			int cnt = (int)(U(2) % 8 - 4) % 3;
			for (int i = 0; i < cnt; i++)
				a << *w.s[i];
			store(U(1), a.join(*ps), cnt == 0 ? std::string() : cnt == 1 ? w.m[0] : w.m[0] + sep + w.m[1], "join(sep) of 0..2 elements");
			return;
		}
		a << *w.s[0] << *w.s[1] << *w.s[2];
		if (U(2) % 4 == 3 && len > 0) // the separator is one of the joined strings
			store(U(1), a.join(s), w.m[0] + m + w.m[1] + m + w.m[2], "join(one of the elements)");
		else {
			std::unique_ptr<String> ps(new String(sep.c_str()));
			store(U(1), a.join(*ps), w.m[0] + sep + w.m[1] + sep + w.m[2], "join(sep)");
		}
	}
	// ---- replace / trim
	else if (n == "replace") {
		std::string a = text_arg(m, o.str(0), U(2), U(3), U(4), true);
		const std::string& b = o.str(1);
		std::string want = ref::replace_all(m, a, b);
		if ((long)want.size() > MAXLEN) {
			g_tr.skipped++;
			return;
		}
		if (m.find(a) != std::string::npos)
			g_tr.replaced++;
		std::unique_ptr<String> pa(new String(a.c_str())), pb(new String(b.c_str()));
		store(U(1), s.replace(*pa, *pb), want, "replace(a,b)");
	}
	else if (n == "replaceme") {
		char a = (U(3) & 1) && len > 0 ? m[(size_t)U(1) % (size_t)len] : nzc(U(1));
		char b = nzc(U(2));
		for (auto& ch : m)
			if (ch == a)
				ch = b;
		String& r = s.replaceme(a, b);
		VF_CHECK(&r == &s, "replaceme returns *this");
	}
	else if (n == "trim") {
		if (m != ref::trimmed(m))
			g_tr.cls["hist.trim_effective"]++;
		m = ref::trimmed(m);
		s.trim();
	}
	else if (n == "trimmed") {
		store(U(1), s.trimmed(), ref::trimmed(m), "trimmed()");
	}
	// ---- resize + external fill + fix
	else if (n == "resize") {
		long k = (long)(U(1) % 3001);
		bool keep = (U(2) & 1) != 0, newlen = (U(3) & 1) != 0;
		if (newlen) {
			s.resize((int)k, keep);
			VF_CHECK(s.length() == k && s.cap() > k && (*s)[k] == '\0', "resize(", k, ",", keep, "): length() ", s.length(), " cap() ", s.cap());
			size_t kept = keep ? (size_t)std::min(k, len) : 0;
			std::string model = m.substr(0, kept) + cyc(o.str(0), (size_t)k - kept);
			if (keep)
				VF_CHECK(memcmp(*s, m.data(), kept) == 0, "resize(", k, ", keep) changed the first ", kept, " bytes");
			memcpy(s.data() + kept, model.data() + kept, model.size() - kept);
			m = model;
		}
		else {
			s.resize((int)k, keep, false);
			VF_CHECK(s.cap() > k, "resize(", k, ",", keep, ",false): cap() ", s.cap());
			// write t <= k bytes and a terminator, then restore the length with fix() / fix(n)
			size_t t = (size_t)(U(5) % (k + 1));
			size_t kept = keep ? std::min(t, (size_t)len) : 0;
			if (keep)
				VF_CHECK(s.length() == len && memcmp(*s, m.data(), (size_t)len) == 0, "resize(", k, ", keep, newlen=false) changed the string");
			std::string model = m.substr(0, kept) + cyc(o.str(0), t - kept);
			char* p = s.data();
			memcpy(p, model.data(), t);
			p[t] = '\0';
			if (U(4) & 1)
				s.fix((int)t);
			else
				s.fix();
			m = model;
		}
	}
	else if (n == "safe") {
		int k = (int)(U(1) % 120);
		size_t t = (size_t)(U(2) % (3 * k + 1));
		std::string model = cyc(o.str(0), t);
		{
			SafeString ss(s, k);
			char* p = ss;
			memcpy(p, model.data(), t);
			p[t] = '\0';
		}
		m = model;
	}
	else if (n == "clear") {
		s.clear();
		m.clear();
	}
	// ---- comparison
	else if (n == "cmp") {
		std::string other;
		String os;
		if (U(2) % 4 == 1) {
			other = text_arg(m, o.str(0), U(3), U(4), U(5), false);
			os = String(other.c_str());
		}
		else if (U(2) % 4 >= 2) { // nearly equal: one byte changed (first / last / anywhere), one byte shorter or longer
			other = m;
			long p = U(3) % 3 == 0 ? 0 : U(3) % 3 == 1 ? len - 1 : (long)(U(4) % (len + 1));
			if (U(2) % 4 == 2 && len > 0 && p < len)
				other[(size_t)p] = nzc((unsigned char)other[(size_t)p] + U(5) % 254); // a different non-zero byte
			else if (U(5) & 1 && len > 0)
				other.erase(other.size() - 1);
			else
				other += nzc(U(5));
			os = String(other.c_str());
			g_tr.cls["hist.cmp_nearly_equal"]++;
		}
		else {
			other = w.m[U(1) % 3];
			os = *w.s[U(1) % 3];
		}
		ExactC c(other);
		std::unique_ptr<String> osp(new String(os));
		const String& oh = *osp;
		VF_CHECK((s == oh) == (m == other) && (oh == s) == (m == other), "== (heap operand)");
		bool eq = m == other;
		int cw = sgn(m.compare(other));
		(eq ? g_tr.cls["hist.cmp_equal"] : g_tr.cls["hist.cmp_differ"])++;
		VF_CHECK((s == os) == eq && (s != os) == !eq, "==/!= String: ", vf::show(m), " vs ", vf::show(other));
		VF_CHECK((s == (const char*)c.p) == eq && (s != (const char*)c.p) == !eq, "==/!= const char*: ", vf::show(m), " vs ", vf::show(other));
		VF_CHECK(sgn(s.compare(os)) == cw && sgn(s.compare((const char*)c.p)) == cw, "compare: ", vf::show(m), " vs ", vf::show(other), " want sign ", cw);
		VF_CHECK((s < os) == (cw < 0) && (os < s) == (cw > 0), "operator<: ", vf::show(m), " vs ", vf::show(other));
		if (other.size() == 1)
			VF_CHECK((s == other[0]) == eq && (s != other[0]) == !eq, "==/!= char");
		VF_CHECK(s.ok() == (len > 0) && !s == (len == 0) && (bool)s == (len > 0), "ok()/!/bool");
		const String& orr = s | os;
		chk(orr, len ? m : other, "operator|");
	}
	else if (n == "at") {
		long i = (long)(U(1) % (len + 1));
		const String& cs = s;
		VF_CHECK(cs[(int)i] == (i < len ? m[(size_t)i] : '\0'), "operator[] const at ", i);
		if ((U(3) & 1) && i < len) {
			char c = nzc(U(2));
			s[(int)i] = c;
			m[(size_t)i] = c;
		}
	}
	// ---- text -> number (only claims that the property makes: canonical integer text parses back; libc wrappers)
	else if (n == "tonum") {
		const char* t = m.c_str();
		VF_CHECK(s.toInt() == atoi(t), "toInt() on ", vf::show(m));
		double dw = atof(t), dg = s.toDouble();
		VF_CHECK(memcmp(&dw, &dg, sizeof dw) == 0 || (dw != dw && dg != dg), "toDouble() on ", vf::show(m));
		VF_CHECK(s.hexToInt() == (unsigned)strtoul(t, 0, 16), "hexToInt() on ", vf::show(m));
		bool neg;
		uint64_t mag;
		if (ref::parse_dec(m, neg, mag)) {
			g_tr.cls["hist.tonum_integer_text"]++;
			if (mag <= (uint64_t)INT_MAX + (neg ? 1 : 0))
				VF_CHECK((int)s == (int)(neg ? 0 - mag : mag) && s.to<int>() == (int)s, "(int) of ", vf::show(m), " = ", (int)s);
			if (!neg && mag <= UINT_MAX)
				VF_CHECK((unsigned)s == (unsigned)mag, "(unsigned) of ", vf::show(m), " = ", (unsigned)s);
			if (mag <= (uint64_t)LLONG_MAX + (neg ? 1 : 0))
				VF_CHECK(s.toLong() == (Long)(neg ? 0 - mag : mag) && (Long)s == s.toLong(), "toLong() of ", vf::show(m), " = ", s.toLong());
		}
		static const char* falses[] = {"", "0", "false", "False", "FALSE", "no", "NO"};
		bool docfalse = false;
		for (auto f : falses)
			if (m == f)
				docfalse = true;
		if (docfalse)
			VF_CHECK(!s.isTrue(), "isTrue() of documented false value ", vf::show(m));
		else if (!strchr("NnFf", m[0]))
			VF_CHECK(s.isTrue(), "isTrue() false for ", vf::show(m));
	}
	// ---- the string itself as the argument of its own const operations
	else if (n == "self") {
		if (len == 0 || 3 * len > MAXLEN)
			return;
		g_tr.cls["hist.self_as_own_argument"]++;
		VF_CHECK(s.indexOf(s) == 0 && s.indexOf(*s) == 0 && s.contains(s) && s.lastIndexOf(*s) == 0, "indexOf/contains/lastIndexOf(itself) on ", vf::show(m));
		VF_CHECK(s.startsWith(s) && s.endsWith(s) && s.startsWith(*s) && s.endsWith(*s), "startsWith/endsWith(itself) on ", vf::show(m));
		VF_CHECK(s == s && !(s != s) && s.compare(s) == 0 && !(s < s) && s == *s, "comparison with itself");
		Array<String> parts = s.split(s);
		VF_CHECK(parts.length() == 2 && parts[0].length() == 0 && parts[1].length() == 0, "s.split(s) gave ", parts.length(), " pieces");
		chk(parts.join(s), m, "s.split(s).join(s)");
		chk(s.replace(s, "<>"), "<>", "s.replace(s, x)");
		if (len <= 300) { // the result has up to len * len bytes
			long k = (long)(U(1) % len);
			std::string piece = m.substr((size_t)k, (size_t)(1 + U(2) % 3));
			std::unique_ptr<String> pp(new String(piece.c_str()));
			store(U(3), s.replace(*pp, s), ref::replace_all(m, piece, m), "s.replace(piece, s)");
		}
	}
	// ---- ASCII case mapping (non-ASCII belongs to C08)
	else if (n == "case") {
		for (unsigned char ch : m)
			if (ch >= 128) {
				g_tr.skipped++;
				return;
			}
		std::string up = m, lo = m;
		for (auto& ch : up)
			if (ch >= 'a' && ch <= 'z')
				ch = (char)(ch - 32);
		for (auto& ch : lo)
			if (ch >= 'A' && ch <= 'Z')
				ch = (char)(ch + 32);
		String u = s.toUpperCase(), l = s.toLowerCase();
		chk(l, lo, "toLowerCase() (ASCII)");
		VF_CHECK(s.equalsNocase(u) && s.equalsNocase(l), "equalsNocase(own case variants) on ", vf::show(m));
		store(U(1), u, up, "toUpperCase() (ASCII)");
	}
	else {
		g_tr.executed--;
		g_tr.ops.erase(n);
		return; // unknown op: ignored (tolerate any op list)
	}
}

// ---------------------------------------------------------------------------------------------
// integers: text of String(x) equals the reference decimal text; parsing it back with the library gives x

static void num_op(const vf::Op& o)
{
	int kind = (int)((o.i(0) < 0 ? ~o.i(0) : o.i(0)) % 4);
	long long v = o.i(1);
	String* t = new String; // heap object (inline storage flush against the block end)
	String* t2 = new String("#");
	String* t3 = new String("previous content that lives on the heap");
	std::string want;
	try {
		want = num_text(kind, v, 0, t3, t2);
		switch (kind) {
		case 0: {
			String* c = new String((int)v);
			delete t;
			t = c;
			break;
		}
		case 1: {
			String* c = new String((unsigned)v);
			delete t;
			t = c;
			break;
		}
		case 2: {
			String* c = new String((Long)v);
			delete t;
			t = c;
			break;
		}
		default: {
			String* c = new String((ULong)v);
			delete t;
			t = c;
		}
		}
		static const char* names[] = {"String(int)", "String(unsigned)", "String(Long)", "String(ULong)"};
		chk(*t, want, names[kind]);
		chk(*t3, want, "s = number");
		chk(*t2, "#" + want, "s << number");
		bool neg;
		uint64_t mag;
		VF_CHECK(ref::parse_dec(want, neg, mag), "reference text not canonical");
		switch (kind) {
		case 0:
			VF_CHECK((int)*t == (int)v, "(int)String(", (int)v, ") = ", (int)*t);
			VF_CHECK(t->to<int>() == (int)v, "String(int).to<int>()");
			break;
		case 1:
			VF_CHECK((unsigned)*t == (unsigned)v, "(unsigned)String(", (unsigned)v, "u) = ", (unsigned)*t);
			if ((unsigned)v <= (unsigned)INT_MAX)
				VF_CHECK(t->toInt() == (int)v, "String(unsigned).toInt()");
			break;
		case 2:
			VF_CHECK((Long)*t == (Long)v, "(Long)String(", (Long)v, "ll) = ", (Long)*t);
			VF_CHECK(t->toLong() == (Long)v, "String(Long).toLong()");
			break;
		default:
			// no String -> ULong conversion exists: through toLong() when representable, reference inverse above
			if ((ULong)v <= (ULong)LLONG_MAX)
				VF_CHECK((ULong)t->toLong() == (ULong)v, "(ULong)String(", (ULong)v, "ull).toLong() = ", t->toLong());
			VF_CHECK(!neg && mag == (ULong)v, "text of String(ULong) does not denote the value");
		}
	}
	catch (...) {
		delete t;
		delete t2;
		delete t3;
		throw;
	}
	delete t;
	delete t2;
	delete t3;
	g_tr.cls[std::string("num.") + (kind == 0 ? "int" : kind == 1 ? "unsigned" : kind == 2 ? "Long" : "ULong")]++;
	if (want.size() == 15 || want.size() == 16)
		g_tr.cls["num.text_len_15_16"]++;
}

// ---------------------------------------------------------------------------------------------
// printf-style construction against snprintf

struct FArg {
	int cls; // 0 int, 1 long long, 2 double, 3 const char*
	long long i;
	double d;
	const char* s;
};

template <class... A>
static void fmt_invoke(int mode, int n0, const char* f, String*& out, char* refbuf, size_t refsz, int& reflen, A... a)
{
#pragma clang diagnostic push
#pragma clang diagnostic ignored "-Wformat-security"
#pragma clang diagnostic ignored "-Wformat-nonliteral"
	reflen = snprintf(refbuf, refsz, f, a...);
	if (mode & 1)
		out = new String(String::f(f, a...));
	else
		out = new String(n0, f, a...);
#pragma clang diagnostic pop
}

template <class... A>
static void fmt_dispatch(int mode, int n0, const char* f, String*& out, char* refbuf, size_t refsz, int& reflen, const std::vector<FArg>& v, A... a)
{
	if constexpr (sizeof...(A) >= 3) {
		fmt_invoke(mode, n0, f, out, refbuf, refsz, reflen, a...);
	}
	else {
		size_t k = sizeof...(A);
		if (k == v.size()) {
			fmt_invoke(mode, n0, f, out, refbuf, refsz, reflen, a...);
			return;
		}
		switch (v[k].cls) {
		case 0: fmt_dispatch(mode, n0, f, out, refbuf, refsz, reflen, v, a..., (int)v[k].i); break;
		case 1: fmt_dispatch(mode, n0, f, out, refbuf, refsz, reflen, v, a..., (long long)v[k].i); break;
		case 2: fmt_dispatch(mode, n0, f, out, refbuf, refsz, reflen, v, a..., v[k].d); break;
		default: fmt_dispatch(mode, n0, f, out, refbuf, refsz, reflen, v, a..., v[k].s);
		}
	}
}

static void add_lit(std::string& f, const std::string& lit)
{
	for (char c : lit) {
		f += c;
		if (c == '%')
			f += '%';
	}
}

static const int FMT_N0[] = {0, 1, 14, 15, 16, 17, 19, 20, 24, 100, 253, 254, 255, 256, 300, 1024};

// ops: "fmt mode n0 | lit" then up to 3 x "dir flags width prec conv val | sarg lit"
static void fmt_case(const vf::Case& c)
{
	int mode = 0, n0 = 0;
	std::string f;
	std::vector<FArg> args;
	std::vector<ExactC*> held;
	struct Free {
		std::vector<ExactC*>& h;
		~Free()
		{
			for (auto p : h)
				delete p;
		}
	} fr{held};
	for (auto& o : c.ops) {
		if (o.name == "fmt") {
			mode = (int)(o.i(0) & 1);
			n0 = FMT_N0[(o.i(1) < 0 ? ~o.i(1) : o.i(1)) % 16];
			add_lit(f, o.str(0));
		}
		else if (o.name == "dir" && args.size() < 3) {
			auto U = [&o](size_t k) -> long long {
				long long x = o.i(k);
				return x < 0 ? ~x : x;
			};
			int conv = (int)(U(3) % 13);
			static const char* convs[] = {"d", "i", "u", "x", "X", "c", "s", "f", "g", "e", "lld", "llu", "%"};
			// flags legal for the conversion: 1 '-', 2 '0', 4 '+', 8 ' ', 16 '#'
			static const int legal[] = {15, 15, 3, 19, 19, 1, 1, 31, 31, 31, 15, 3, 0};
			int fl = (int)U(0) & legal[conv];
			long long val = o.i(4);
			if (conv == 12) {
				f += "%%";
				add_lit(f, o.str(1));
				continue;
			}
			f += '%';
			if (fl & 1) f += '-';
			if (fl & 2) f += '0';
			if (fl & 4) f += '+';
			if (fl & 8) f += ' ';
			if (fl & 16) f += '#';
			int width = (int)(U(1) % 301);
			if (width)
				f += std::to_string(width);
			int prec = (int)(U(2) % (conv == 6 ? 302 : 42)); // 0 = none, k+1 = ".k"
			if (prec && conv != 5)
				f += "." + std::to_string(prec - 1);
			f += convs[conv];
			FArg a{0, 0, 0, 0};
			switch (conv) {
			case 0: case 1: case 2: case 3: case 4: a.cls = 0; a.i = (int)val; break;
			case 5: a.cls = 0; a.i = (unsigned char)nzc(val); break;
			case 6:
				held.push_back(new ExactC(o.str(0)));
				a.cls = 3;
				a.s = held.back()->p;
				break;
			case 7: case 8: case 9:
				a.cls = 2;
				if (val & 1) {
					unsigned long long u = (unsigned long long)val * 0x9e3779b97f4a7c15ULL;
					memcpy(&a.d, &u, 8);
					if (conv == 7 && !(std::fabs(a.d) < 1e60)) // keep %f results moderate (still up to ~100 chars)
						a.d = std::fmod(a.d, 1e60);
				}
				else
					a.d = (double)((val >> 1) % 20000001 - 10000000) / 128.0;
				break;
			default: a.cls = 1; a.i = val;
			}
			args.push_back(a);
			add_lit(f, o.str(1));
		}
	}
	static char* refbuf = (char*)malloc(65536);
	int reflen = -1;
	String* out = 0;
	ExactC fc(f);
	fmt_dispatch(mode, n0, (const char*)fc.p, out, refbuf, 65536, reflen, args);
	std::string want = reflen >= 0 && reflen < 65536 ? std::string(refbuf, (size_t)reflen) : std::string();
	std::string what = std::string(mode ? "String::f(" : "String(n0, ") + vf::show(f) + ")";
	try {
		if (reflen >= 0 && reflen < 65536)
			chk(*out, want, what.c_str());
	}
	catch (...) {
		delete out;
		throw;
	}
	delete out;
	int L = reflen;
	if (mode == 0) {
		int space = n0 == 0 ? 101 : n0 < 16 ? 16 : (n0 + 1 > 20 ? n0 + 1 : 20);
		if (L >= space)
			g_tr.fmt_retry_ctor++;
		if (L == space - 1) g_tr.cls["fmt.ctor_exactly_fills_first_buffer"]++;
		if (L == space) g_tr.cls["fmt.ctor_one_over_first_buffer"]++;
	}
	else {
		if (L >= 255)
			g_tr.fmt_retry_f++;
		if (L == 254) g_tr.cls["fmt.f_len254"]++;
		if (L == 255) g_tr.cls["fmt.f_len255"]++;
		if (L == 256) g_tr.cls["fmt.f_len256"]++;
	}
	if (L == 15) g_tr.cls["fmt.len15"]++;
	if (L == 16) g_tr.cls["fmt.len16"]++;
	g_tr.cls[mode ? "fmt.f" : "fmt.ctor"]++;
	g_tr.cls["fmt.directives_" + std::to_string(args.size())]++;
}

// ---------------------------------------------------------------------------------------------

static void account(const std::string& part, const vf::Case& c)
{
	if (!g_count)
		return;
	g_count = false;
	vf::Stats& st = vf::stats();
	Trace& t = g_tr;
	for (auto& kv : t.cls)
		st.cls(kv.first, (uint64_t)kv.second);
	if (part == "hist") {
		for (auto& kv : t.ops)
			st.cls("op." + kv.first, (uint64_t)kv.second);
		bool trans = t.in2heap || t.grow_small || t.grow_big;
		bool alias = t.self_append || t.self_tail_append || t.self_assign || t.self_tail_assign || t.self_sub_assign;
		if (t.in2heap) st.cls("hist.case_inline_to_heap");
		if (t.grow_small) st.cls("hist.case_heap_growth_below_1KiB");
		if (t.grow_big) st.cls("hist.case_heap_growth_from_1KiB(realloc)");
		if (t.self_append) st.cls("hist.case_s+=s");
		if (t.self_append_grow) st.cls("hist.case_s+=s_with_growth");
		if (t.self_tail_append) st.cls("hist.case_s+=piece_of_s");
		if (t.self_tail_append_grow) st.cls("hist.case_s+=piece_of_s_with_growth");
		if (t.self_assign) st.cls("hist.case_s=s");
		if (t.self_tail_assign) st.cls("hist.case_s=piece_of_s");
		if (t.self_tail_overlap) st.cls("hist.case_s=tail_overlapping");
		if (t.self_sub_assign) st.cls("hist.case_s=s.substring");
		if (t.boundary) st.cls("hist.case_boundary_length");
		if (t.exact_full) st.cls("hist.case_buffer_exactly_full");
		if (t.found) st.cls("hist.search_found", (uint64_t)t.found);
		if (t.notfound) st.cls("hist.search_not_found", (uint64_t)t.notfound);
		if (t.split_multi) st.cls("hist.split_several_pieces", (uint64_t)t.split_multi);
		if (t.replaced) st.cls("hist.replace_with_occurrence", (uint64_t)t.replaced);
		if (t.skipped) st.cls("hist.ops_skipped(length cap / non-ASCII case op)", (uint64_t)t.skipped);
		st.cls("hist.ops_executed", (uint64_t)t.executed);
		if (trans || alias || t.boundary) {
			st.nt(vf::fnv(vf::serialize(c)));
			if (trans && alias && c.ops.size() <= 6)
				st.sample("hist: " + vf::serialize(c), 3);
		}
	}
	else if (part == "fmt") {
		if (t.fmt_retry_ctor) st.cls("fmt.ctor_retry(result >= first buffer)");
		if (t.fmt_retry_f) st.cls("fmt.f_retry(result >= 255)");
		st.nt(vf::fnv(vf::serialize(c)));
		if (t.fmt_retry_ctor && c.ops.size() == 2)
			st.sample("fmt: " + vf::serialize(c), 5);
	}
}

void vf_run_case(const std::string& part, const vf::Case& c)
{
	g_tr = Trace();
	if (part == "num") {
		for (auto& o : c.ops)
			if (o.name == "num")
				num_op(o);
	}
	else if (part == "fmt") {
		fmt_case(c);
	}
	else {
		World w;
		for (auto& o : c.ops) {
			const String* before[3] = {w.s[0], w.s[1], w.s[2]};
			int capb[3] = {w.s[0]->cap(), w.s[1]->cap(), w.s[2]->cap()};
			hist_op(w, o);
			w.check_all(o.name.c_str());
			for (int i = 0; i < 3; i++)
				if (w.s[i] == before[i] && w.s[i]->cap() > capb[i]) {
					if (capb[i] == 16)
						g_tr.in2heap++;
					else if (capb[i] < 1024)
						g_tr.grow_small++;
					else
						g_tr.grow_big++;
				}
		}
	}
	account(part, c);
}

// ---------------------------------------------------------------------------------------------
// generators

namespace {
using namespace rc;

static const std::vector<int> LENS = {0, 1, 2, 3, 7, 14, 15, 16, 17, 19, 20, 22, 23, 24, 25, 47, 48, 1022, 1023, 1024, 1025, 1026};

Gen<int> genLen()
{
	return gen::mapcat(vf::irange<int>(0, 19), [](int k) -> Gen<int> {
		if (k < 9)
			return gen::elementOf(LENS);
		if (k < 16)
			return vf::irange<int>(0, 40);
		if (k < 19)
			return vf::irange<int>(0, 300);
		return vf::irange<int>(0, 2100);
	});
}

static const std::string ALPHA_SMALL = "ab ,=;\t\n";
static const std::string ALPHA_NUM = "0123456789-+.e1 ";
static const std::string ALPHA_ASCII = "abcXYZ_ %09\r~!";

Gen<int> genByte(int alpha)
{
	switch (alpha) {
	case 0: return gen::map(gen::elementOf(ALPHA_SMALL), [](char c) { return (int)(unsigned char)c; });
	case 1: return vf::irange<int>(1, 255);
	case 2: return gen::map(gen::elementOf(ALPHA_NUM), [](char c) { return (int)(unsigned char)c; });
	default: return gen::map(gen::elementOf(ALPHA_ASCII), [](char c) { return (int)(unsigned char)c; });
	}
}

// NUL-free text; long texts are a short generated seed repeated (keeps generation and case files cheap)
Gen<std::string> genTextLen(int n)
{
	return gen::mapcat(gen::elementOf(std::vector<int>{0, 0, 0, 1, 1, 2, 3}), [n](int alpha) {
		int seedlen = n <= 48 ? n : 7;
		return gen::map(gen::container<std::vector<int>>((size_t)seedlen, genByte(alpha)), [n](const std::vector<int>& v) {
			std::string s((size_t)n, 'q');
			if (!v.empty())
				for (int i = 0; i < n; i++)
					s[(size_t)i] = (char)v[(size_t)i % v.size()];
			return s;
		});
	});
}
Gen<std::string> genText() { return gen::mapcat(genLen(), [](int n) { return genTextLen(n); }); }
// separators / patterns / replacement texts: short
Gen<std::string> genShort(bool nonEmpty)
{
	return gen::mapcat(gen::weightedElement<int>({{(size_t)(nonEmpty ? 0 : 2), 0}, {8, 1}, {4, 2}, {2, 3}, {1, 17}}), [](int n) { return genTextLen(n); });
}

Gen<long long> genValue()
{
	return gen::mapcat(vf::irange<int>(0, 9), [](int k) -> Gen<long long> {
		if (k < 3)
			return gen::arbitrary<long long>();
		if (k < 5)
			return gen::map(gen::arbitrary<int>(), [](int v) { return (long long)v; });
		if (k < 7)
			return gen::map(gen::pair(vf::irange<int>(0, 18), vf::irange<int>(-1, 1)), [](std::pair<int, int> p) {
				long long v = 1;
				for (int i = 0; i < p.first; i++)
					v *= 10;
				return v + p.second;
			});
		if (k < 8)
			return gen::map(gen::pair(vf::irange<int>(0, 18), vf::irange<int>(-1, 1)), [](std::pair<int, int> p) {
				long long v = 1;
				for (int i = 0; i < p.first; i++)
					v *= 10;
				return -v + p.second;
			});
		return gen::elementOf(std::vector<long long>{0, 1, -1, INT_MAX, INT_MIN, (long long)INT_MAX + 1, (long long)INT_MIN - 1, UINT_MAX, (long long)UINT_MAX + 1,
		                                               LLONG_MAX, LLONG_MIN, LLONG_MIN + 1, -1000000000000000LL, 999999999999999LL, -99999999999999LL, -100000000000000LL});
	});
}

// kinds of int arguments: 'd' slot/flag/position (0..9999, reduced modulo the live state by the interpreter),
// 'v' 64-bit value, 'l' length-like (boundary biased)
struct OpSpec {
	const char* name;
	int weight;
	const char* ints;
	const char* strs; // 't' text, 's' short non-empty, 'e' short possibly empty
};
static const OpSpec OPS[] = {
    {"new_c", 10, "d", "t"},     {"new_n", 3, "dd", "t"},      {"new_ch", 1, "dd", ""},       {"new_rep", 3, "ddld", ""},   {"new_arr", 2, "dd", "t"},
    {"new_cap", 3, "dll", "e"},  {"new_copy", 3, "dd", ""},    {"new_num", 4, "ddv", ""},     {"new_fmt", 3, "dddd", ""},   {"as_s", 5, "dd", ""},
    {"as_c", 5, "dd", "t"},      {"as_tail", 8, "dd", ""},     {"as_sub", 5, "ddd", ""},      {"as_num", 3, "ddv", ""},     {"assign", 5, "dddd", "t"},
    {"ap_s", 12, "ddd", ""},     {"ap_c", 10, "dd", "t"},      {"ap_tail", 9, "ddd", ""},     {"ap_ch", 8, "ddd", ""},      {"ap_num", 3, "ddv", ""},
    {"append", 6, "dddd", "t"},  {"cat", 6, "ddddd", "t"},     {"cat_tail", 3, "ddddd", ""},  {"substring", 5, "ddddd", ""}, {"substr", 5, "ddddd", ""},
    {"idx_c", 4, "dddd", ""},    {"idx_s", 6, "ddddd", "s"},   {"split", 6, "ddddd", "s"},    {"split_ws", 3, "dd", ""},    {"split2", 3, "ddddddd", "ss"},
    {"join3", 2, "ddd", "s"},     {"replace", 6, "ddddd", "se"}, {"replaceme", 2, "dddd", ""}, {"trim", 3, "d", ""},         {"trimmed", 3, "dd", ""},
    {"resize", 7, "dldddl", "e"}, {"safe", 2, "ddd", "e"},     {"clear", 1, "d", ""},         {"cmp", 4, "dddddd", "e"},    {"at", 3, "dddd", ""},
    {"tonum", 3, "d", ""},       {"case", 2, "dd", ""},        {"self", 3, "dddd", ""},
};

Gen<vf::Op> genOp()
{
	std::vector<int> w;
	for (size_t i = 0; i < sizeof(OPS) / sizeof(OPS[0]); i++)
		for (int k = 0; k < OPS[i].weight; k++)
			w.push_back((int)i);
	return gen::mapcat(gen::elementOf(w), [](int k) {
		const OpSpec& sp = OPS[k];
		std::vector<Gen<long long>> gi;
		for (const char* p = sp.ints; *p; p++)
			gi.push_back(*p == 'v' ? genValue() : *p == 'l' ? gen::map(genLen(), [](int v) { return (long long)v; }) : gen::map(vf::irange<int>(0, 9999), [](int v) { return (long long)v; }));
		std::vector<Gen<std::string>> gs;
		for (const char* p = sp.strs; *p; p++)
			gs.push_back(*p == 't' ? genText() : genShort(*p == 's'));
		auto ints = gen::exec([gi]() {
			std::vector<long long> r;
			for (auto& g : gi)
				r.push_back(*g);
			return r;
		});
		auto strs = gen::exec([gs]() {
			std::vector<std::string> r;
			for (auto& g : gs)
				r.push_back(*g);
			return r;
		});
		std::string name = sp.name;
		return gen::map(gen::pair(ints, strs), [name](const std::pair<std::vector<long long>, std::vector<std::string>>& p) {
			vf::Op o(name);
			o.a = p.first;
			o.s = p.second;
			return o;
		});
	});
}

Gen<vf::Case> genHistory()
{
	return gen::map(gen::container<std::vector<vf::Op>>(genOp()), [](const std::vector<vf::Op>& v) {
		vf::Case c;
		c.ops = v;
		return c;
	});
}

Gen<vf::Case> genFmt()
{
	auto width = gen::mapcat(vf::irange<int>(0, 9), [](int k) -> Gen<int> {
		if (k < 3)
			return gen::just(0);
		if (k < 7)
			return gen::elementOf(std::vector<int>{13, 14, 15, 16, 17, 18, 19, 20, 21, 23, 24, 25, 99, 100, 101, 252, 253, 254, 255, 256, 257, 258, 300});
		return vf::irange<int>(1, 300);
	});
	auto prec = gen::mapcat(vf::irange<int>(0, 3), [](int k) -> Gen<int> {
		if (k < 2)
			return gen::just(0);
		return vf::irange<int>(1, 300);
	});
	auto lit = gen::mapcat(gen::weightedElement<int>({{6, 0}, {3, 1}, {2, 2}, {1, 5}}), [](int n) { return genTextLen(n); });
	auto sarg = gen::mapcat(gen::oneOf(gen::elementOf(std::vector<int>{0, 1, 2, 14, 15, 16, 17, 100, 253, 254, 255, 256, 257}), vf::irange<int>(0, 40), vf::irange<int>(0, 600)),
	                        [](int n) { return genTextLen(n); });
	auto dir = gen::map(gen::tuple(vf::irange<int>(0, 31), width, prec, vf::irange<int>(0, 12), genValue(), sarg, lit),
	                    [](const std::tuple<int, int, int, int, long long, std::string, std::string>& t) {
		                    vf::Op o("dir");
		                    o.a = {std::get<0>(t), std::get<1>(t), std::get<2>(t), std::get<3>(t), std::get<4>(t)};
		                    o.s = {std::get<5>(t), std::get<6>(t)};
		                    return o;
	                    });
	auto ndir = gen::weightedElement<int>({{1, 0}, {6, 1}, {3, 2}, {2, 3}});
	return gen::mapcat(ndir, [=](int nd) {
		return gen::map(gen::tuple(vf::irange<int>(0, 1), vf::irange<int>(0, 15), lit, gen::container<std::vector<vf::Op>>((size_t)nd, dir)),
		                [](const std::tuple<int, int, std::string, std::vector<vf::Op>>& t) {
			                vf::Case c;
			                vf::Op o("fmt");
			                o.a = {std::get<0>(t), std::get<1>(t)};
			                o.s = {std::get<2>(t)};
			                c.ops.push_back(o);
			                for (auto& d : std::get<3>(t))
				                c.ops.push_back(d);
			                return c;
		                });
	});
}

} // namespace

// ---------------------------------------------------------------------------------------------

static bool run_nums(const std::vector<std::pair<int, long long>>& v)
{
	vf::Case c;
	for (auto& p : v)
		c.ops.push_back(vf::Op("num", {p.first, p.second}));
	g_count = true;
	bool ok = vf::runner().run("num", c);
	if (ok && v.size() == 1 && v[0].second == LLONG_MIN)
		vf::stats().sample("num: " + vf::serialize(c), 6);
	if (ok && v.size() > 1)
		vf::stats().eval(v.size() - 1);
	if (ok)
		for (auto& p : v) { // distinct = distinct (type, value as converted to that type)
			long long canon = p.first == 0 ? (long long)(int)p.second : p.first == 1 ? (long long)(unsigned)p.second : p.second;
			vf::stats().nt(vf::fnv(&canon, 8, (uint64_t)p.first + 99));
		}
	return ok;
}

void vf_search(const vf::Args& a)
{
	// (1) op histories
	[&]() {
		vf::check_cases("hist", a.n(14000, 120000), 80, genHistory(), [](const vf::Case&) { g_count = true; });
	}();
	// (2) printf-style construction
	[&]() {
		vf::check_cases("fmt", a.n(12000, 150000), 100, genFmt(), [](const vf::Case&) { g_count = true; });
	}();
	// (3) integers: boundary values of every type (enumerated, distinct by construction), dense neighbourhoods, random values
	[&]() {
		std::vector<long long> b = {0};
		for (int k = 0; k <= 19; k++) {
			unsigned long long p = 1;
			for (int i = 0; i < k; i++)
				p *= 10;
			for (long long dlt = -2; dlt <= 2; dlt++) {
				b.push_back((long long)(p + (unsigned long long)dlt));
				b.push_back((long long)(0 - (p + (unsigned long long)dlt)));
			}
		}
		for (int k = 0; k < 64; k++)
			for (long long dlt = -2; dlt <= 2; dlt++) {
				b.push_back((long long)((1ULL << k) + (unsigned long long)dlt));
				b.push_back((long long)(0 - ((1ULL << k) + (unsigned long long)dlt)));
			}
		uint64_t n = 0, idx = 0;
		for (int kind = 0; kind < 4; kind++)
			for (long long v : b) {
				if ((int)(idx++ % (uint64_t)a.workers) != a.worker)
					continue;
				if (!run_nums({{kind, v}}))
					return;
				n++;
			}
		vf::stats().part("num.boundaries(10^k, 2^k, +-2, both signs, 4 types)", n, true);
		// dense neighbourhoods of the 15/16-character switch of String(Long)/String(ULong) and of the 32-bit limits
		std::vector<long long> centers = {1000000000000000LL, -100000000000000LL, -1000000000000000LL, 100000000000000LL, 2147483648LL, -2147483648LL, 4294967296LL, 0};
		long radius = a.n(300, 20000);
		for (size_t ci = 0; ci < centers.size(); ci++) {
			if ((int)(ci % (size_t)a.workers) != a.worker)
				continue;
			std::vector<std::pair<int, long long>> batch;
			for (long dlt = -radius; dlt <= radius; dlt++) {
				for (int kind = 0; kind < 4; kind++)
					batch.push_back({kind, centers[ci] + dlt});
				if (batch.size() >= 64 || dlt == radius) {
					if (!run_nums(batch))
						return;
					batch.clear();
				}
			}
		}
		// random values (written into the case): uniform bit patterns and uniform digit counts
		ref::Mix rng(a.seed * 1000 + (uint64_t)a.worker + 77);
		long nb = a.n(800, 10000);
		for (long i = 0; i < nb; i++) {
			std::vector<std::pair<int, long long>> batch;
			for (int k = 0; k < 64; k++) {
				uint64_t r = rng.next();
				if (k & 1)
					r >>= rng.below(64); // uniform magnitude class
				if (k & 2)
					r = 0 - r;
				batch.push_back({(int)rng.below(4), (long long)r});
			}
			if (!run_nums(batch))
				return;
		}
	}();
}
