// C12 (stress part) -- randomized high-contention runs under a data-race detector.
// N asl::Thread workers perform random copy/assign/drop operations on their own handles to two shared objects, or
// ++/--/+=/-= on shared AtomicCount / Atomic<T> variables, as fast as the OS schedules them. Built twice:
// with ThreadSanitizer (a reported race is a failure) and with AddressSanitizer (use after free / double free).
// Oracles besides the sanitizers: no payload instance is left alive after every handle was dropped; every counter's
// final value equals its initial value plus the sum of what each thread did (computed thread-locally).
#include "common/vfrc.h"
#include "common/ref_codec.h"
#include <asl/Array.h>
#include <asl/Map.h>
#include <asl/HashMap.h>
#include <asl/Pointer.h>
#include <asl/Shared.h>
#include <asl/Thread.h>
#include <asl/Mutex.h>
#include <atomic>
#include <thread>
#include <new>

using namespace asl;

const char* vf_harness_name() { return "C12_stress"; }

static std::atomic<int> g_live{0};
static std::atomic<int> g_bad{0};

struct Elem {
	int canary;
	int oid;
	int* heap;
	explicit Elem(int o = -1) : canary(0x5a5a5a5a), oid(o), heap(new int(o)) { g_live++; }
	Elem(const Elem& e) : canary(0x5a5a5a5a), oid(e.oid), heap(new int(e.oid)) { g_live++; }
	Elem& operator=(const Elem& e)
	{
		oid = e.oid;
		*heap = e.oid;
		return *this;
	}
	~Elem()
	{
		canary = 0;
		delete heap;
		g_live--;
	}
	bool ok(int o) const { return canary == 0x5a5a5a5a && oid == o && *heap == o; }
};
struct Payload : public Elem {
	explicit Payload(int o) : Elem(o) {}
	Payload* clone() const { return new Payload(oid); }
};
ASL_SMART_CLASS(SObj, SmartObject)
{
	ASL_SMART_INNER_DEF(SObj)
	Elem e;
	SObj_() : e(-1) {}
	SObj_(int o) : e(o) {}
	SObj_(const SObj_& s) : e(s.e) {}
};
class SObj : public SmartObject
{
public:
	ASL_SMART_DEF(SObj, SmartObject)
	SObj(int o) : ASL_SMART_INIT(o) {}
	bool ok(int o) const { return _()->e.ok(o); }
};

template <class H>
struct Kind;
template <>
struct Kind<Array<Elem>> {
	static Array<Elem> make(int oid)
	{
		Array<Elem> a;
		a << Elem(oid) << Elem(oid);
		return a;
	}
	static bool ok(const Array<Elem>& h, int oid) { return h.length() == 2 && h[0].ok(oid) && h[1].ok(oid); }
	static void dup(Array<Elem>& h) { h.dup(); }
};
template <>
struct Kind<Map<int, Elem>> {
	static Map<int, Elem> make(int oid)
	{
		Map<int, Elem> m;
		m[7] = Elem(oid);
		return m;
	}
	static bool ok(const Map<int, Elem>& h, int oid)
	{
		const Elem* e = h.find(7);
		return h.length() == 1 && e && e->ok(oid);
	}
	static void dup(Map<int, Elem>& h) { h.dup(); }
};
template <>
struct Kind<HashMap<int, Elem>> {
	static HashMap<int, Elem> make(int oid)
	{
		HashMap<int, Elem> m;
		m[7] = Elem(oid);
		m[263] = Elem(oid);
		return m;
	}
	static bool ok(const HashMap<int, Elem>& h, int oid)
	{
		const Elem* e = h.find(7);
		return h.length() == 2 && e && e->ok(oid) && h.has(263);
	}
	static void dup(HashMap<int, Elem>& h) { h.dup(); }
};
template <>
struct Kind<Shared<Payload>> {
	static Shared<Payload> make(int oid) { return Shared<Payload>(new Payload(oid)); }
	static bool ok(const Shared<Payload>& h, int oid) { return h->ok(oid); }
	static void dup(Shared<Payload>& h) { h = h.clone(); }
};
template <>
struct Kind<SObj> {
	static SObj make(int oid) { return SObj(oid); }
	static bool ok(const SObj& h, int oid) { return h.ok(oid); }
	static void dup(SObj& h) { h = h.clone(); }
};

static const int NSLOT = 3;

template <class H>
struct HWorker : public Thread {
	alignas(H) char mem[NSLOT][sizeof(H)];
	bool live[NSLOT] = {false, false, false};
	int oid[NSLOT] = {-1, -1, -1};
	int id = 0;
	long nops = 0;
	uint64_t seed = 0;
	H& h(int i) { return *(H*)mem[i]; }
	void put(int i, const H& x, int o)
	{
		new (mem[i]) H(x);
		live[i] = true;
		oid[i] = o;
	}
	void drop(int i)
	{
		if (live[i]) {
			h(i).~H();
			live[i] = false;
		}
	}
	void run()
	{
		ref::SplitMix r(seed);
		int fresh = 0;
		for (long k = 0; k < nops; k++) {
			uint64_t v = r.next();
			int a = (int)(v % NSLOT), b = (int)((v >> 8) % NSLOT), code = (int)((v >> 16) % 16);
			if (code < 5) { // copy into an empty slot
				if (!live[a] && live[b])
					put(a, h(b), oid[b]);
			}
			else if (code < 9) { // drop, but always keep one handle so that the shared objects stay reachable from this thread
				int nlive = 0;
				for (int i = 0; i < NSLOT; i++)
					nlive += live[i];
				if (nlive > 1)
					drop(a);
			}
			else if (code < 13) { // assign between two of this thread's handles
				if (a != b && live[a] && live[b]) {
					h(a) = h(b);
					oid[a] = oid[b];
				}
			}
			else if (code < 15) { // detach this handle from the others (dup() / clone())
#ifndef VF_TSAN
				// Not in the ThreadSanitizer build: dup() decides "am I the only handle" with a plain read of the count, which
				// TSan reports against other threads' atomic decrements. That read is benign (a stale "shared" only costs a
				// needless copy, "sole owner" cannot change under the owner's feet) and no clause of the property forbids it;
				// the lifetime clauses are checked for dup() by the scheduler harness and by the ASan build of this file.
				if (live[a])
					Kind<H>::dup(h(a));
#endif
			}
			else if (live[a]) { // assign a fresh temporary object
				int o2 = 1000 + id * 100000 + (fresh++ % 90000);
				h(a) = Kind<H>::make(o2);
				oid[a] = o2;
			}
			if ((v >> 24) % 4 == 0)
				for (int i = 0; i < NSLOT; i++)
					if (live[i] && !Kind<H>::ok(h(i), oid[i]))
						g_bad++;
		}
		for (int i = 0; i < NSLOT; i++)
			drop(i);
	}
};

template <class H>
static void stress_handles(int nth, long nops, uint64_t seed)
{
	{
		H warm = Kind<H>::make(0);
		(void)Kind<H>::ok(warm, 0);
	}
	int live0 = g_live;
	g_bad = 0;
	{
		H A = Kind<H>::make(1), B = Kind<H>::make(2);
		std::vector<HWorker<H>*> ws;
		for (int t = 0; t < nth; t++) {
			HWorker<H>* w = new HWorker<H>;
			w->id = t + 1;
			w->nops = nops;
			w->seed = seed * 1315423911ULL + t;
			w->put(0, A, 1);
			if (t % 2)
				w->put(1, B, 2);
			ws.push_back(w);
		}
		for (auto w : ws)
			w->start();
		// the creator's own handles go away while the workers run
		A = Kind<H>::make(3);
		B = A;
		for (auto w : ws)
			w->join();
		for (auto w : ws)
			delete w;
	}
	VF_CHECK(g_bad == 0, g_bad.load(), " reads through a live handle saw an object that was not intact");
	VF_CHECK(g_live == live0, "payload instances alive after every handle was dropped: ", g_live - live0);
}

template <class C>
struct CWorker : public Thread {
	C* c;
	long nops = 0;
	uint64_t seed = 0;
	long long local = 0;
	int kind = 0;
	void run();
};
template <>
void CWorker<AtomicCount>::run()
{
	ref::SplitMix r(seed);
	for (long k = 0; k < nops; k++) {
		if (r.next() & 1) {
			++*c;
			local++;
		}
		else {
			--*c;
			local--;
		}
	}
}
template <class T>
static void atomic_ops(Atomic<T>* c, long nops, uint64_t seed, long long& local)
{
	ref::SplitMix r(seed);
	for (long k = 0; k < nops; k++) {
		uint64_t v = r.next();
		int d = (int)((v >> 8) % 5) + 1;
		switch (v % 6) {
		case 0:
			++*c;
			local++;
			break;
		case 1:
			--*c;
			local--;
			break;
		case 2:
			(*c)++;
			local++;
			break;
		case 3:
			(*c)--;
			local--;
			break;
		case 4:
			*c += (T)d;
			local += d;
			break;
		case 5:
			*c -= (T)d;
			local -= d;
			break;
		}
	}
}
template <>
void CWorker<Atomic<int>>::run() { atomic_ops<int>(c, nops, seed, local); }
template <>
void CWorker<Atomic<Long>>::run() { atomic_ops<Long>(c, nops, seed, local); }
template <>
void CWorker<Atomic<double>>::run() { atomic_ops<double>(c, nops, seed, local); }

template <class C, class V>
static void stress_counter(int nth, long nops, uint64_t seed, V initial, const char* name)
{
	C* c = new C(initial);
	std::vector<CWorker<C>*> ws;
	for (int t = 0; t < nth; t++) {
		CWorker<C>* w = new CWorker<C>;
		w->c = c;
		w->nops = nops;
		w->seed = seed * 2654435761ULL + t;
		ws.push_back(w);
	}
	for (auto w : ws)
		w->start();
	long long sum = 0;
	for (auto w : ws) {
		w->join();
		sum += w->local;
		delete w;
	}
	long long final_ = (long long)(V)*c;
	delete c;
	VF_CHECK(final_ == (long long)initial + sum, name, ": final value ", final_, " != initial ", (long long)initial, " + sum of all operations ", sum, " (lost update)");
}

static int ticket(AtomicCount* c, bool);
static int ticket(Atomic<int>* c, bool post);

// ---- the remaining read-modify-write forms of Atomic<T> and the values they return ---------------------------------

// *= and /= on Atomic<double>: factors 2 and 0.5 are exact, so the final value is initial * 2^(sum of balances); every thread
// keeps its own balance within +-20 and ends at 0, so the exact final value is the initial one
static void stress_muldiv(int nth, long nops, uint64_t seed)
{
	Atomic<double>* c = new Atomic<double>(3.0);
	std::vector<std::thread*> ts; // (std::thread: the hand-over flag of asl's lambda Thread is C13's subject and not TSan-clean)
	for (int t = 0; t < nth; t++) {
		uint64_t sd = seed * 40503ULL + t;
		ts.push_back(new std::thread([=]() {
			ref::SplitMix r(sd);
			int bal = 0;
			for (long k = 0; k < nops; k++) {
				bool up = (r.next() & 1) != 0;
				if (bal >= 20)
					up = false;
				if (bal <= -20)
					up = true;
				if (up) {
					*c *= 2.0;
					bal++;
				}
				else {
					*c /= 2.0;
					bal--;
				}
			}
			for (; bal > 0; bal--)
				*c /= 2.0;
			for (; bal < 0; bal++)
				*c *= 2.0;
		}));
	}
	for (auto t : ts) {
		t->join();
		delete t;
	}
	double f = ~*c;
	delete c;
	VF_CHECK(f == 3.0, "Atomic<double>: after balanced sequences of *= 2 and /= 2 in ", nth, " threads the value is ", f, " (want the initial 3: an update was lost)");
}

// the values returned by ++x / x++ (and AtomicCount's ++): with increments only, the tickets drawn by all threads together are
// exactly initial+1 .. initial+total, each once
template <class C>
static void stress_tickets(int nth, long nops, uint64_t seed, const char* name)
{
	if (nops > 200000)
		nops = 200000;
	C* c = new C(0);
	std::vector<std::vector<int>> got(nth);
	std::vector<std::thread*> ts; // (std::thread: the hand-over flag of asl's lambda Thread is C13's subject and not TSan-clean)
	for (int t = 0; t < nth; t++) {
		std::vector<int>* mine = &got[t];
		uint64_t sd = seed * 69069ULL + t;
		ts.push_back(new std::thread([=]() {
			ref::SplitMix r(sd);
			mine->reserve(nops);
			for (long k = 0; k < nops; k++)
				mine->push_back(ticket(c, (r.next() & 1) != 0));
		}));
	}
	for (auto t : ts) {
		t->join();
		delete t;
	}
	long total = (long)nth * nops;
	std::vector<char> seen(total + 2, 0);
	for (auto& v : got)
		for (int x : v) {
			VF_CHECK(x >= 1 && x <= total, name, ": an increment returned ", x, ", outside 1..", total);
			VF_CHECK(!seen[x], name, ": the value ", x, " was returned by two increments (", nth, " threads, increments only)");
			seen[x] = 1;
		}
	int f = (int)*c;
	delete c;
	VF_CHECK(f == total, name, ": final value ", f, " after ", total, " increments");
}
static int ticket(AtomicCount* c, bool) { return ++*c; }
static int ticket(Atomic<int>* c, bool post) { return post ? (*c)++ + 1 : ++*c; }

// Atomic<Array<int>> << x : appends under the lock (the array grows and reallocates while other threads append)
static void stress_append(int nth, long nops, uint64_t seed)
{
	if (nops > 50000)
		nops = 50000;
	Atomic<Array<int>>* a = new Atomic<Array<int>>();
	std::vector<std::thread*> ts; // (std::thread: the hand-over flag of asl's lambda Thread is C13's subject and not TSan-clean)
	for (int t = 0; t < nth; t++)
		ts.push_back(new std::thread([=]() {
			for (long k = 0; k < nops; k++) {
				if (k % 3 == 0)
					(*a)->insert(-1, t * 1000000 + (int)k); // operator-> : a Locked<T> temporary holds the mutex for the call
				else
					*a << (t * 1000000 + (int)k);
			}
		}));
	for (auto t : ts) {
		t->join();
		delete t;
	}
	(void)seed;
	Array<int> r = ~*a;
	delete a;
	VF_CHECK(r.length() == nth * nops, "Atomic<Array<int>>: ", nth, " threads appended ", nops, " elements each, the array has ", r.length());
	std::vector<long> next(nth, 0);
	for (int i = 0; i < r.length(); i++) {
		int t = r[i] / 1000000, k = r[i] % 1000000;
		VF_CHECK(t >= 0 && t < nth && k == next[t], "Atomic<Array<int>>: element ", i, " is ", r[i], ", thread ", t, "'s next element should be number ", t < nth && t >= 0 ? next[t] : -1);
		next[t]++;
	}
}

// Atomic<struct>: member updates through operator-> and locked()
struct PairLL {
	long long a, b;
	void bump(int d)
	{
		a += d;
		b -= d;
	}
};
static void stress_struct(int nth, long nops, uint64_t seed)
{
	PairLL z = {0, 0};
	Atomic<PairLL>* p = new Atomic<PairLL>(z);
	std::vector<long long> sums(nth, 0);
	std::vector<std::thread*> ts; // (std::thread: the hand-over flag of asl's lambda Thread is C13's subject and not TSan-clean)
	for (int t = 0; t < nth; t++) {
		long long* mine = &sums[t];
		uint64_t sd = seed * 31337ULL + t;
		ts.push_back(new std::thread([=]() {
			ref::SplitMix r(sd);
			long long s = 0;
			for (long k = 0; k < nops; k++) {
				int d = (int)(r.next() % 7) + 1;
				if (k % 2)
					(*p)->bump(d);
				else {
					Locked<PairLL> l = p->locked();
					l->a += d;
					(*l).b -= d;
				}
				s += d;
			}
			*mine = s;
		}));
	}
	long long sum = 0;
	for (int t = 0; t < nth; t++) {
		ts[t]->join();
		delete ts[t];
		sum += sums[t];
	}
	PairLL f = ~*p;
	delete p;
	VF_CHECK(f.a == sum && f.b == -sum, "Atomic<struct>: members updated through operator-> / locked() by ", nth, " threads: a=", f.a, " b=", f.b, ", the sum of all updates is ", sum);
}


// Atomic<handle>: some threads replace the handle (a = fresh object, under the Atomic's lock), others copy it out through the
// implicit conversion `H h = a;` and through `~a` (both documented as synchronised copies) and use / drop their copy outside the
// lock. Every copy must be a live, intact object; nothing is left alive at the end.
template <class H>
static bool self_ok(const H& h);
template <>
bool self_ok<Array<Elem>>(const Array<Elem>& h) { return h.length() == 2 && h[0].ok(h[0].oid) && h[1].ok(h[0].oid); }
template <>
bool self_ok<Shared<Payload>>(const Shared<Payload>& h) { return h->ok(h->oid); }
template <>
bool self_ok<Map<int, Elem>>(const Map<int, Elem>& h)
{
	const Elem* e = h.find(7);
	return h.length() == 1 && e && e->ok(e->oid);
}
template <class H>
static void stress_atomic_handle(int nth, long nops, uint64_t seed, const char* name)
{
	if (nops > 60000)
		nops = 60000;
	{
		H warm = Kind<H>::make(0);
		(void)self_ok(warm);
	}
	int live0 = g_live;
	g_bad = 0;
	{
		Atomic<H>* a = new Atomic<H>(Kind<H>::make(1));
		std::vector<std::thread*> ts;
		for (int t = 0; t < nth; t++)
			ts.push_back(new std::thread([=]() {
				ref::SplitMix r(seed * 7919ULL + t);
				for (long k = 0; k < nops; k++) {
					if (t % 4 == 0) { // writer
						*a = Kind<H>::make(2 + t * 1000000 + (int)(k % 900000));
						if (k % 64 == 0)
							sched_yield();
					}
					else if (r.next() & 1) {
						H h = *a; // operator T()
						if (!self_ok(h))
							g_bad++;
					}
					else {
						H h = ~*a;
						if (!self_ok(h))
							g_bad++;
					}
				}
			}));
		for (auto t : ts) {
			t->join();
			delete t;
		}
		delete a;
	}
	VF_CHECK(g_bad == 0, name, ": ", g_bad.load(), " copies taken out of the Atomic were not intact objects");
	VF_CHECK(g_live == live0, name, ": payload instances alive after every handle was dropped: ", g_live - live0);
}

static const int NKINDS = 17;
static const char* KINDS[] = {"Array", "Map", "HashMap", "Shared", "SmartObject", "AtomicCount", "Atomic<int>", "Atomic<Long>", "Atomic<double>",
                              "Atomic<double>.muldiv", "AtomicCount.tickets", "Atomic<int>.tickets", "Atomic<Array>.append", "Atomic<struct>.members",
                              "Atomic<Array<Elem>>.copy_out", "Atomic<Shared>.copy_out", "Atomic<Map>.copy_out"};

void vf_run_case(const std::string& part, const vf::Case& c)
{
	for (auto& o : c.ops) {
		if (o.name != "stress")
			continue;
		int kind = (int)((o.i(0) % NKINDS + NKINDS) % NKINDS);
		int nth = (int)(o.i(1) < 2 ? 2 : o.i(1) > 32 ? 32 : o.i(1));
		long nops = (long)(o.i(2) < 1 ? 1 : o.i(2) > 20000000 ? 20000000 : o.i(2));
		uint64_t seed = (uint64_t)o.i(3);
		switch (kind) {
		case 0:
			stress_handles<Array<Elem>>(nth, nops, seed);
			break;
		case 1:
			stress_handles<Map<int, Elem>>(nth, nops, seed);
			break;
		case 2:
			stress_handles<HashMap<int, Elem>>(nth, nops, seed);
			break;
		case 3:
			stress_handles<Shared<Payload>>(nth, nops, seed);
			break;
		case 4:
			stress_handles<SObj>(nth, nops, seed);
			break;
		case 5:
			stress_counter<AtomicCount, int>(nth, nops, seed, 7, KINDS[kind]);
			break;
		case 6:
			stress_counter<Atomic<int>, int>(nth, nops, seed, 7, KINDS[kind]);
			break;
		case 7:
			stress_counter<Atomic<Long>, Long>(nth, nops, seed, 7, KINDS[kind]);
			break;
		case 8:
			stress_counter<Atomic<double>, double>(nth, nops, seed, 7, KINDS[kind]);
			break;
		case 9:
			stress_muldiv(nth, nops, seed);
			break;
		case 10:
			stress_tickets<AtomicCount>(nth, nops, seed, KINDS[kind]);
			break;
		case 11:
			stress_tickets<Atomic<int>>(nth, nops, seed, KINDS[kind]);
			break;
		case 12:
			stress_append(nth, nops, seed);
			break;
		case 13:
			stress_struct(nth, nops, seed);
			break;
		case 14:
			stress_atomic_handle<Array<Elem>>(nth, nops, seed, KINDS[kind]);
			break;
		case 15:
			stress_atomic_handle<Shared<Payload>>(nth, nops, seed, KINDS[kind]);
			break;
		case 16:
			stress_atomic_handle<Map<int, Elem>>(nth, nops, seed, KINDS[kind]);
			break;
		}
		vf::stats().cls(vf::str("stress.", KINDS[kind]));
		vf::stats().cls("stress.thread_ops", (uint64_t)nth * nops);
	}
}

void vf_search(const vf::Args& a)
{
	// every kind, 16 threads; the number of operations per thread is the budget (10^5 quick ... 10^7 thorough in total
	// per kind and worker); seeds differ per worker and repetition so that every run is a different random history
	ref::SplitMix rng(a.seed * 7919 + a.worker);
	long per_thread = a.n(40000, 600000);
	int reps = a.quick() ? 3 : 6;
	for (int rep = 0; rep < reps; rep++)
		for (int kind = 0; kind < NKINDS; kind++) {
			int nth = rep % 2 ? 16 : 4 + (int)rng.below(13);
			long nops = kind >= 5 ? per_thread * 4 : per_thread;
			vf::Case c;
			c.add(vf::Op("stress", {kind, nth, nops, (long long)(rng.next() % 1000000007)}));
			if (!vf::runner().run("stress", c))
				continue;
			vf::stats().nt(vf::fnv(vf::serialize(c)));
			if (rep == 0 && (kind == 0 || kind == 6))
				vf::stats().sample("stress kind nthreads ops_per_thread seed: " + vf::serialize(c));
		}
}
