// C02 -- Map, Dic, HashMap, HashDic and Set against std::map / std::set over generated operation histories.
//
// Six container kinds (= parts): map_ii Map<int,int>, dic_s Dic<String>, hmap_ii HashMap<int,int>, hdic_i HashDic<int>,
// set_i Set<int>, set_s Set<String>.  A case is an op history over three slots of one kind; each slot has a std::map /
// std::set model.  After every op the touched slots (all slots while they are small) are compared with their models:
// length, has/find for every key of the model and for every absent key the case mentions (plus every key removed so
// far), the three enumeration styles (Enumerator, foreach/foreach2, range-for) as exactly-once sequences, ascending for
// Map/Dic.  ==/!= and the Set algebra are compared with the model's in both argument orders.  At the end of the case all
// containers are destroyed and the allocated byte count must be back at its pre-case value.
//
// Op line:  name slot k v x ... | kstr vstr      (int-keyed kinds use k, String-keyed kinds use kstr; same for values)
#include "common/vfrc.h"
#include <asl/Map.h>
#include <asl/HashMap.h>
#include <asl/Set.h>
#include <algorithm>
#include <climits>

using namespace asl;

const char* vf_harness_name() { return "C02_maps"; }

// A smaller quarantine than ASan's 256 MB default: the histories free tens of thousands of small nodes per second and the
// default makes every allocation touch a fresh page (a third of the run time was page faults).  32 MB still holds every
// block freed during the current and many previous cases, so use-after-free detection inside a case is unaffected.
extern "C" const char* __asan_default_options() { return "quarantine_size_mb=32"; }

// ---------------------------------------------------------------------------------------------
// conversions between asl types and model types

template <class T>
struct Conv;
template <>
struct Conv<int> {
	typedef int M;
	static int to(int m) { return m; }
	static int from(int a) { return a; }
	static std::string show(int m) { return std::to_string(m); }
	static int key(const vf::Op& o) { return (int)o.i(1); }
	static int val(const vf::Op& o) { return (int)o.i(2); }
	static int nth(int base, int stride, int i) { return (int)((unsigned)base + (unsigned)stride * (unsigned)i); }
};

// adversarial String key families (NUL-free)
static std::string skey(int fam, int i)
{
	if (i < 0)
		i = -(i + 1);
	switch (((fam % 4) + 4) % 4) {
	case 1: { // 64 strings of 12 bytes with one and the same 33*h+c hash ("Ab" and "BA" hash alike, block by block)
		std::string s;
		for (int b = 0; b < 6; b++)
			s += ((i >> b) & 1) ? "BA" : "Ab";
		return s;
	}
	case 2: { // 100-byte shared prefix: differing in the last byte, or proper prefixes of each other
		std::string s(100, 'p');
		i %= 16;
		if (i < 8)
			s += char('a' + i);
		else
			s.resize(100 - (i - 8));
		return s;
	}
	case 3: {
		static const char* e[] = {"", "a", "A", "b", "ab", "aB", "\x80", "\xff", "a\x01", " ", "~", "Ab", "BA", "\x7f", "aa", "B"};
		return e[i % 16];
	}
	default:
		return "k" + std::to_string(i);
	}
}

static std::string nonul(const std::string& s) { return std::string(s.c_str()); }

template <>
struct Conv<String> {
	typedef std::string M;
	static String to(const std::string& m) { return String(m.c_str()); }
	static std::string from(const String& a) { return std::string(*a, (size_t)a.length()); }
	static std::string show(const std::string& m) { return vf::show(m, 24); }
	static std::string key(const vf::Op& o) { return nonul(o.str(0)); }
	static std::string val(const vf::Op& o) { return nonul(o.str(1)); }
	static std::string nth(int fam, int base, int i) { return skey(fam, (int)((unsigned)base + (unsigned)i) & 0x7fffffff); }
};

static int slotOf(long long x) { return (int)(((x % 3) + 3) % 3); }

// ---------------------------------------------------------------------------------------------
// per-case classification flags (plain data: no allocation between the baseline measurements)

struct Flags {
	int ops = 0, chain_mut = 0, head_rm = 0, nonhead_rm = 0, rehash = 0, eq_equal = 0, eq_equal_difforder = 0, eq_unequal = 0,
	    eq_unequal_samelen = 0, eq_values_only = 0, merges = 0, merge_overlap = 0, clones = 0, base_adds = 0, clone_then_mut = 0, maxlen = 0,
	    algebra = 0, tablesizes = 0, removed_present = 0, overwrites = 0, front_insert = 0, mid_insert = 0, convs = 0,
	    conv_reordered = 0, conv_merged = 0, eq_default_moved = 0, setref = 0, setref_new = 0, setref_before = 0, setref_after = 0,
	    setref_full = 0, degenerate = 0;
	unsigned small_found = 0, small_nf = 0;
	bool cloned[3] = {false, false, false};
};

static int popcount(unsigned x) { return __builtin_popcount(x); }

// number of nodes in the bucket chain of k (classification only; uses the public table `a` and binOf)
template <class H, class K>
static void chain_info(const H& c, const K& k, int& len, bool& present, bool& head)
{
	len = 0;
	present = head = false;
	auto* p = c.a[c.binOf(k)];
	if (p && p->key == k)
		head = true;
	for (; p; p = p->next) {
		len++;
		if (p->key == k)
			present = true;
	}
}

template <class H, class K>
static void note_chain(const H& c, const K& k, bool removal, Flags& F)
{
	int len;
	bool present, head;
	chain_info(c, k, len, present, head);
	if (len >= 2 && present) {
		F.chain_mut++;
		if (removal && head)
			F.head_rm++;
		if (removal && !head)
			F.nonhead_rm++;
	}
}

// ---------------------------------------------------------------------------------------------
// map-like kinds

// ---------------------------------------------------------------------------------------------
// converting constructors Map<K,T>(const Map<K2,T2>&), Dic<T>(const Map<K2,T2>&), Dic<T>(const Dic<T2>&): a map built from a map
// of another key type is again an ordered finite map -- ascending in the TARGET key order, every converted key found, each
// distinct converted key present once -- and stays one under a few ordinary ops (overwrite / remove of existing keys, ==).

static std::string cstr(const String& s) { return std::string(*s, (size_t)s.length()); }

// MT = Map<String,int> or Dic<int>; sm = the source's contents with keys converted by String(int) (an injective conversion)
template <class MT>
static void check_conv_str(MT& d, std::map<std::string, int> sm, const std::set<int>& probes, const char* what, const vf::Op& o)
{
	auto verify = [&](const char* after) {
		VF_CHECK(d.length() == (int)sm.size(), what, " ", after, ": length() = ", d.length(), ", expected ", sm.size(), " distinct keys");
		Array<String> ks = d.keys();
		VF_CHECK(ks.length() == (int)sm.size(), what, " ", after, ": keys() has ", ks.length(), " elements, expected ", sm.size());
		typename Map<String, int>::Enumerator e = d.all();
		int i = 0;
		for (auto& kv : sm) {
			VF_CHECK(cstr(ks[i]) == kv.first, what, " ", after, ": keys()[", i, "] is ", vf::show(cstr(ks[i])), ", expected ", vf::show(kv.first), " (ascending String order)");
			VF_CHECK((bool)e, what, " ", after, ": enumeration ends after ", i, " of ", sm.size(), " entries");
			VF_CHECK(cstr(~e) == kv.first && *e == kv.second, what, " ", after, ": enumeration position ", i, " is ", vf::show(cstr(~e)), "=>", *e, ", expected ",
			         vf::show(kv.first), "=>", kv.second);
			++e;
			i++;
			String k(kv.first.c_str());
			const int* p = ((const MT&)d).find(k);
			VF_CHECK(d.has(k) && p != 0, what, " ", after, ": present key ", vf::show(kv.first), " is not found (has ", d.has(k), ", find ", p != 0, ")");
			VF_CHECK(*p == kv.second, what, " ", after, ": value of key ", vf::show(kv.first), " is ", *p, ", expected ", kv.second);
		}
		VF_CHECK(!(bool)e, what, " ", after, ": enumeration visits more than ", sm.size(), " entries");
		for (int u : probes) {
			String k(u);
			if (!sm.count(cstr(k)))
				VF_CHECK(!d.has(k) && d.find(k) == 0, what, " ", after, ": absent key ", vf::show(cstr(k)), " is found");
		}
	};
	verify("after construction");
	if (sm.empty())
		return;
	auto nth = [&](long long j) {
		long long n = (long long)sm.size();
		auto it = sm.begin();
		std::advance(it, (size_t)(((j % n) + n) % n));
		return it->first;
	};
	std::string k1 = nth(o.i(1)), k2 = nth(o.i(2)), k3 = nth(o.i(3));
	d[String(k1.c_str())] = 91;
	sm[k1] = 91;
	d.set(String(k2.c_str()), 92);
	sm[k2] = 92;
	verify("after overwriting two existing keys");
	bool r = d.remove(String(k3.c_str()));
	sm.erase(k3);
	VF_CHECK(r, what, ": remove(", vf::show(k3), ") of an existing key returned false");
	verify("after removing an existing key");
	Map<String, int> ref;
	for (auto it = sm.rbegin(); it != sm.rend(); ++it)
		ref[String(it->first.c_str())] = it->second;
	VF_CHECK(d == ref && ref == d && !(d != ref) && !(ref != d), what, ": the converted map does not compare equal to a map with the same ", sm.size(),
	         " entries built by plain insertions");
}

static void check_conversions(const Map<int, int>& c, const std::map<int, int>& m, const std::set<int>& probes, const vf::Op& o, Flags& F)
{
	F.convs++;
	// (1) int keys -> String keys: numeric order is not String order ("256" < "3", "-1" < "-2", "10" < "9")
	std::map<std::string, int> sm;
	bool reordered = false;
	{
		std::string prev;
		bool first = true;
		for (auto& kv : m) {
			std::string t = cstr(String(kv.first));
			sm[t] = kv.second;
			if (!first && !(prev < t))
				reordered = true;
			prev = t;
			first = false;
		}
	}
	if (sm.size() == m.size()) { // String(int) is injective on these keys (always, unless String(int) itself is broken: C03's business)
		if (reordered)
			F.conv_reordered++;
		{
			Map<String, int> d(c);
			check_conv_str(d, sm, probes, "Map<String,int>(Map<int,int>)", o);
		}
		{
			Dic<int> d(c);
			Dic<double> dd(d); // value-converting form Dic<T>(const Dic<T2>&)
			VF_CHECK(dd.length() == (int)sm.size(), "Dic<double>(Dic<int>): length() = ", dd.length(), ", expected ", sm.size());
			Array<String> ks = dd.keys();
			int i = 0;
			for (auto& kv : sm) {
				VF_CHECK(cstr(ks[i]) == kv.first, "Dic<double>(Dic<int>): keys()[", i, "] is ", vf::show(cstr(ks[i])), ", expected ", vf::show(kv.first));
				const double* p = dd.find(String(kv.first.c_str()));
				VF_CHECK(p && *p == (double)kv.second, "Dic<double>(Dic<int>): key ", vf::show(kv.first), " not found or wrong value");
				i++;
			}
			check_conv_str(d, sm, probes, "Dic<int>(Map<int,int>)", o);
		}
	}
	// (2) double keys -> int keys: k/2 truncates, so several source keys merge into one.  Which of the merging values survives is not
	// documented; only: length, strict ascent, lookups consistent with the enumeration, each distinct converted key once, value is one
	// of the merging source values.
	{
		const char* what = "Map<int,int>(Map<double,int>)";
		Map<double, int> src;
		std::map<int, std::set<int>> mm;
		for (auto& kv : m) {
			double dk = kv.first * 0.5;
			src[dk] = kv.second;
			mm[(int)dk].insert(kv.second);
		}
		VF_CHECK(src.length() == (int)m.size(), "Map<double,int> source has ", src.length(), " keys, expected ", m.size());
		if (mm.size() < m.size())
			F.conv_merged++;
		Map<int, int> mi(src);
		VF_CHECK(mi.length() == (int)mm.size(), what, ": length() = ", mi.length(), " but the ", m.size(), " source keys convert to ", mm.size(), " distinct keys");
		std::map<int, int> got;
		int prev = 0;
		for (Map<int, int>::Enumerator e = mi.all(); e; ++e) {
			int k = ~e;
			VF_CHECK(got.empty() || prev < k, what, ": enumeration is not strictly ascending: key ", prev, " is followed by ", k);
			VF_CHECK(mm.count(k), what, ": enumerates key ", k, " to which no source key converts");
			VF_CHECK(mm[k].count(*e), what, ": value ", *e, " of key ", k, " is not the value of any source key converting to it");
			got[k] = *e;
			prev = k;
		}
		VF_CHECK(got.size() == mm.size(), what, ": enumeration visits ", got.size(), " distinct keys, expected ", mm.size());
		for (auto& kv : got) {
			const int* p = mi.find(kv.first);
			VF_CHECK(mi.has(kv.first) && p && *p == kv.second, what, ": lookup of enumerated key ", kv.first, " is inconsistent with the enumeration");
		}
		for (int u : probes)
			if (!mm.count(u))
				VF_CHECK(!mi.has(u), what, ": absent key ", u, " is found");
		if (!got.empty()) {
			auto nth = [&](long long j) {
				long long n = (long long)got.size();
				auto it = got.begin();
				std::advance(it, (size_t)(((j % n) + n) % n));
				return it->first;
			};
			int k1 = nth(o.i(1)), k3 = nth(o.i(3));
			mi[k1] = 91;
			got[k1] = 91;
			VF_CHECK(mi.length() == (int)got.size() && mi.find(k1) && *mi.find(k1) == 91, what, ": overwriting existing key ", k1, " gives length ", mi.length(), ", expected ",
			         got.size());
			bool r = mi.remove(k3);
			got.erase(k3);
			VF_CHECK(r && mi.length() == (int)got.size() && !mi.has(k3), what, ": remove of existing key ", k3, " returned ", r, ", length ", mi.length(), ", expected ",
			         got.size(), ", still has ", mi.has(k3));
			Map<int, int> ref;
			for (auto it = got.rbegin(); it != got.rend(); ++it)
				ref[it->first] = it->second;
			VF_CHECK(mi == ref && ref == mi, what, ": the converted map does not compare equal to a map with the same entries built by plain insertions");
		}
	}
}

template <class C, class K, class V, bool ORD>
struct MapRun {
	typedef typename Conv<K>::M MK;
	typedef typename Conv<V>::M MV;
	typedef std::map<MK, MV> Model;
	typedef std::vector<std::pair<MK, MV>> Seq;
	static const bool HASH = !ORD;

	C* slot[3];
	Model model[3];
	std::set<MK> universe; // keys whose absence is probed
	Flags& F;

	static C* make(long long n)
	{
		if constexpr (ORD)
			return new C();
		else {
			if (n == 0)
				return new C();
			if (n < 0)
				n = -n;
			return new C((int)(1 + (n - 1) % 600)); // documented sizes only; 0 is not generated (DESIGN.md C02)
		}
	}

	MapRun(Flags& f) : F(f)
	{
		for (int i = 0; i < 3; i++)
			slot[i] = 0;
		for (int i = 0; i < 3; i++)
			slot[i] = new C();
	}
	~MapRun()
	{
		for (int i = 0; i < 3; i++)
			delete slot[i];
	}

	void probe(const MK& k)
	{
		if (universe.size() < 400)
			universe.insert(k);
	}

	static Seq seq_of(const Model& m) { return Seq(m.begin(), m.end()); }

	void cmp_seq(Seq got, const Model& m, const char* style, int s, const char* after)
	{
		if (!ORD)
			std::sort(got.begin(), got.end());
		Seq want = seq_of(m);
		if (got == want)
			return;
		// describe the first difference
		size_t i = 0;
		while (i < got.size() && i < want.size() && got[i] == want[i])
			i++;
		std::string g = i < got.size() ? Conv<K>::show(got[i].first) + "=>" + Conv<V>::show(got[i].second) : "(end)";
		std::string w = i < want.size() ? Conv<K>::show(want[i].first) + "=>" + Conv<V>::show(want[i].second) : "(end)";
		VF_FAIL("after ", after, ": enumeration (", style, ") of slot ", s, " visits ", got.size(), " entries, model has ", want.size(),
		        "; first difference at ", ORD ? "position " : "sorted position ", i, ": got ", g, " want ", w);
	}

	void check(int s, const char* after)
	{
		const C& c = *slot[s];
		const Model& m = model[s];
		VF_CHECK(c.length() == (int)m.size(), "after ", after, ": slot ", s, " length() = ", c.length(), ", model has ", m.size(), " keys");
		if ((int)m.size() > F.maxlen)
			F.maxlen = (int)m.size();
		for (auto& kv : m) {
			K k = Conv<K>::to(kv.first);
			VF_CHECK(c.has(k), "after ", after, ": slot ", s, " has(", Conv<K>::show(kv.first), ") is false for a present key");
			const V* p = c.find(k);
			VF_CHECK(p != 0, "after ", after, ": slot ", s, " find(", Conv<K>::show(kv.first), ") is null for a present key");
			VF_CHECK(Conv<V>::from(*p) == kv.second, "after ", after, ": slot ", s, " value of key ", Conv<K>::show(kv.first), " is ",
			         Conv<V>::show(Conv<V>::from(*p)), ", latest value set is ", Conv<V>::show(kv.second));
		}
		for (auto& uk : universe) {
			if (m.count(uk))
				continue;
			K k = Conv<K>::to(uk);
			VF_CHECK(!c.has(k), "after ", after, ": slot ", s, " has(", Conv<K>::show(uk), ") is true for an absent key");
			VF_CHECK(c.find(k) == 0, "after ", after, ": slot ", s, " find(", Conv<K>::show(uk), ") is non-null for an absent key");
		}
		{
			Seq got;
			for (typename C::Enumerator e = c.all(); e; ++e)
				got.emplace_back(Conv<K>::from(~e), Conv<V>::from(*e));
			cmp_seq(got, m, "Enumerator", s, after);
		}
		{
			Seq got;
			foreach2 (K & k, V & v, c)
				got.emplace_back(Conv<K>::from(k), Conv<V>::from(v));
			cmp_seq(got, m, "foreach2", s, after);
		}
		{
			Seq got;
			for (auto& e : c)
				got.emplace_back(Conv<K>::from(e.key), Conv<V>::from(e.value));
			cmp_seq(got, m, "range-for", s, after);
		}
		if constexpr (ORD)
			VF_CHECK((!c) == m.empty(), "after ", after, ": operator! of slot ", s);
	}

	void check_all(const char* after)
	{
		for (int i = 0; i < 3; i++)
			check(i, after);
	}

	// ordered-map lookups at sizes <= 3: which (size, index / insertion point) combinations were exercised
	void note_small(int s, const MK& k)
	{
		if (!ORD)
			return;
		const Model& m = model[s];
		if (m.size() > 3)
			return;
		int pos = 0;
		for (auto& kv : m) {
			if (kv.first < k)
				pos++;
		}
		unsigned bit = 1u << (m.size() * 4 + pos);
		if (m.count(k))
			F.small_found |= bit;
		else
			F.small_nf |= bit;
	}

	void pre_mut(int s, const MK& mk, bool removal)
	{
		note_small(s, mk);
		if (F.cloned[s])
			F.clone_then_mut++;
		if constexpr (HASH)
			note_chain(*slot[s], Conv<K>::to(mk), removal, F);
		if (removal && model[s].count(mk))
			F.removed_present++;
		if (!removal) {
			if (model[s].count(mk))
				F.overwrites++;
			else if (ORD && !model[s].empty()) {
				if (mk < model[s].begin()->first)
					F.front_insert++;
				else if (mk < model[s].rbegin()->first)
					F.mid_insert++;
			}
		}
	}

	int tablen(int s)
	{
		if constexpr (HASH)
			return slot[s]->a.length();
		else
			return 0;
	}
	void post_insert(int s, int before)
	{
		if (HASH && tablen(s) != before)
			F.rehash++;
	}

	bool nthkey(int s, long long j, MK& out)
	{
		const Model& m = model[s];
		if (m.empty())
			return false;
		size_t n = (size_t)(((j % (long long)m.size()) + (long long)m.size()) % (long long)m.size());
		auto it = m.begin();
		std::advance(it, n);
		out = it->first;
		return true;
	}

	// keys of the model in enumeration order of the container (classification of equality cases)
	std::vector<MK> order_of(const C& c)
	{
		std::vector<MK> r;
		for (typename C::Enumerator e = c.all(); e; ++e)
			r.push_back(Conv<K>::from(~e));
		return r;
	}

	void do_eq(int s, int t, const char* after)
	{
		const C &x = *slot[s], &y = *slot[t];
		bool want = model[s] == model[t];
		bool e1 = x == y, e2 = y == x, n1 = x != y, n2 = y != x;
		const char* built = "";
		if (want) {
			F.eq_equal++;
			if (HASH && s != t && order_of(x) != order_of(y)) {
				F.eq_equal_difforder++;
				built = " (the two enumerate in different orders)";
			}
		}
		else {
			F.eq_unequal++;
			if (model[s].size() == model[t].size()) {
				F.eq_unequal_samelen++;
				bool samekeys = true;
				for (auto i = model[s].begin(), j = model[t].begin(); i != model[s].end(); ++i, ++j)
					if (i->first != j->first)
						samekeys = false;
				if (samekeys)
					F.eq_values_only++;
			}
		}
		VF_CHECK(e1 == want, after, ": slot", s, " == slot", t, " is ", e1, " but the contents are ", want ? "equal" : "different", " (", model[s].size(), " and ",
		         model[t].size(), " entries)", built);
		VF_CHECK(e2 == want, after, ": slot", t, " == slot", s, " is ", e2, " but the contents are ", want ? "equal" : "different", built);
		VF_CHECK(n1 == !want, after, ": slot", s, " != slot", t, " is ", n1, " but the contents are ", want ? "equal" : "different", built);
		VF_CHECK(n2 == !want, after, ": slot", t, " != slot", s, " is ", n2, " but the contents are ", want ? "equal" : "different", built);
	}

	void insert_many(int s, const vf::Op& o)
	{
		// ints: many slot base stride count value ; strings: many slot fam base count | - value
		long long cnt = o.i(3);
		if (cnt < 0)
			cnt = -cnt;
		cnt %= 4000;
		MV v;
		if constexpr (std::is_same<V, int>::value)
			v = (int)o.i(4);
		else
			v = Conv<V>::val(o);
		int before = tablen(s);
		for (int i = 0; i < cnt; i++) {
			MK mk = Conv<K>::nth((int)o.i(1), (int)o.i(2), i);
			if (i < 4)
				pre_mut(s, mk, false);
			(*slot[s])[Conv<K>::to(mk)] = Conv<V>::to(v);
			model[s][mk] = v;
		}
		post_insert(s, before);
	}

	void step(const vf::Op& o)
	{
		const std::string& n = o.name;
		int s = slotOf(o.i(0));
		C& c = *slot[s];
		Model& m = model[s];
		MK mk = Conv<K>::key(o);
		MV mv = Conv<V>::val(o);
		int touched2 = -1;
		F.ops++;
		if (n == "set") {
			probe(mk);
			pre_mut(s, mk, false);
			int b = tablen(s);
			c.set(Conv<K>::to(mk), Conv<V>::to(mv));
			post_insert(s, b);
			m[mk] = mv;
		}
		else if (n == "idx") {
			probe(mk);
			pre_mut(s, mk, false);
			int b = tablen(s);
			c[Conv<K>::to(mk)] = Conv<V>::to(mv);
			post_insert(s, b);
			m[mk] = mv;
		}
		else if (n == "idxr") { // non-const operator[] as a read: inserts a default value when the key is absent
			probe(mk);
			pre_mut(s, mk, false);
			int b = tablen(s);
			V& r = c[Conv<K>::to(mk)];
			post_insert(s, b);
			MV want = m.count(mk) ? m[mk] : MV();
			m.emplace(mk, MV());
			VF_CHECK(Conv<V>::from(r) == want, "operator[](", Conv<K>::show(mk), ") of slot ", s, " gives ", Conv<V>::show(Conv<V>::from(r)), ", expected ", Conv<V>::show(want));
		}
		else if (n == "cidx") {
			probe(mk);
			note_small(s, mk);
			const C& cc = c;
			const V& r = cc[Conv<K>::to(mk)];
			MV want = m.count(mk) ? m[mk] : MV();
			VF_CHECK(Conv<V>::from(r) == want, "const operator[](", Conv<K>::show(mk), ") of slot ", s, " gives ", Conv<V>::show(Conv<V>::from(r)), ", expected ",
			         Conv<V>::show(want));
			VF_CHECK(c.length() == (int)m.size(), "const operator[] changed the length");
		}
		else if (n == "get") {
			probe(mk);
			note_small(s, mk);
			V def = Conv<V>::to(mv);
			const V& r = c.get(Conv<K>::to(mk), def);
			MV want = m.count(mk) ? m[mk] : mv;
			VF_CHECK(Conv<V>::from(r) == want, "get(", Conv<K>::show(mk), ", ", Conv<V>::show(mv), ") of slot ", s, " gives ", Conv<V>::show(Conv<V>::from(r)), ", expected ",
			         Conv<V>::show(want));
		}
		else if (n == "find") {
			probe(mk);
			note_small(s, mk);
			V* p = c.find(Conv<K>::to(mk));
			const V* q = ((const C&)c).find(Conv<K>::to(mk));
			bool has = c.has(Conv<K>::to(mk));
			bool want = m.count(mk) != 0;
			VF_CHECK((p != 0) == want && (q != 0) == want && has == want, "find/has(", Conv<K>::show(mk), ") of slot ", s, ": find ", p != 0, " const find ", q != 0, " has ", has,
			         ", key is ", want ? "present" : "absent");
			if (want)
				VF_CHECK(p == q && Conv<V>::from(*p) == m[mk], "find(", Conv<K>::show(mk), ") points to ", Conv<V>::show(Conv<V>::from(*p)), ", expected ", Conv<V>::show(m[mk]));
		}
		else if (n == "rm" || n == "rmnth") {
			if (n == "rmnth" && !nthkey(s, o.i(1), mk))
				return;
			probe(mk);
			pre_mut(s, mk, true);
			bool want = m.count(mk) != 0;
			if constexpr (ORD) {
				bool r = c.remove(Conv<K>::to(mk));
				VF_CHECK(r == want, "remove(", Conv<K>::show(mk), ") of slot ", s, " returned ", r, ", key was ", want ? "present" : "absent");
			}
			else
				c.remove(Conv<K>::to(mk));
			m.erase(mk);
		}
		else if (n == "ownth") { // overwrite the j-th present key
			if (!nthkey(s, o.i(1), mk))
				return;
			pre_mut(s, mk, false);
			int b = tablen(s);
			if (o.i(3) & 1)
				c.set(Conv<K>::to(mk), Conv<V>::to(mv));
			else
				c[Conv<K>::to(mk)] = Conv<V>::to(mv);
			post_insert(s, b);
			m[mk] = mv;
		}
		else if (n == "clear") {
			c.clear();
			m.clear();
		}
		else if (n == "new") {
			delete slot[s];
			slot[s] = 0;
			slot[s] = make(o.i(1));
			m.clear();
			F.cloned[s] = false;
			if (HASH && o.i(1) != 0)
				F.tablesizes++;
			if (HASH && o.i(1) != 0 && (o.i(1) < 0 ? -o.i(1) : o.i(1)) <= 3)
				F.degenerate++;
		}
		else if (n == "clone") {
			int t = slotOf(o.i(1));
			*slot[t] = c.clone();
			if (s != t)
				model[t] = m;
			F.clones++;
			F.cloned[s] = F.cloned[t] = true;
			touched2 = t;
		}
		else if (n == "cloneow") { // slot t := clone of slot s with the value of its j-th key replaced; then compared with slot s
			int t = slotOf(o.i(1));
			if (t == s)
				t = (s + 1) % 3;
			*slot[t] = c.clone();
			model[t] = m;
			F.clones++;
			F.cloned[s] = F.cloned[t] = true;
			MK k;
			if (nthkey(t, o.i(3), k)) {
				pre_mut(t, k, false);
				(*slot[t])[Conv<K>::to(k)] = Conv<V>::to(mv);
				model[t][k] = mv;
			}
			check(t, "cloneow");
			check(s, "cloneow");
			do_eq(s, t, "cloneow");
			return;
		}
		else if (n == "clonemove") { // the two differ in ONE KEY only, and that key carries the default value on both sides
			int t = slotOf(o.i(2));
			if (t == s)
				t = (s + 1) % 3;
			MK kj;
			if (!nthkey(s, o.i(3), kj))
				return;
			probe(mk);
			probe(kj);
			pre_mut(s, kj, false);
			c[Conv<K>::to(kj)] = V();
			m[kj] = MV();
			*slot[t] = c.clone();
			model[t] = m;
			F.clones++;
			F.cloned[s] = F.cloned[t] = true;
			pre_mut(t, kj, true);
			slot[t]->remove(Conv<K>::to(kj));
			model[t].erase(kj);
			(void)(*slot[t])[Conv<K>::to(mk)]; // inserts the default value when absent
			model[t].emplace(mk, MV());
			if (model[s].size() == model[t].size() && model[s] != model[t])
				F.eq_default_moved++;
			check(t, "clonemove");
			check(s, "clonemove");
			do_eq(s, t, "clonemove");
			return;
		}
		else if (n == "setref") { // insert / overwrite with a value passed BY REFERENCE to an entry of the same container: set(k1, m[k2]), ...
			MK k2;
			if (!nthkey(s, o.i(2), k2))
				return;
			probe(mk);
			F.setref++;
			if (!m.count(mk)) {
				F.setref_new++;
				if (mk < k2)
					F.setref_before++;
				else
					F.setref_after++;
				if constexpr (ORD)
					if (c.kv().length() == c.kv().cap())
						F.setref_full++;
			}
			pre_mut(s, mk, false);
			MV want = m[k2]; // the model reads the value before the insertion, as a by-value call would
			int b = tablen(s);
			K ak1 = Conv<K>::to(mk), ak2 = Conv<K>::to(k2);
			long long form = o.i(3) < 0 ? -o.i(3) : o.i(3);
			// only forms in which the library function itself receives the reference (set(k, const T&), operator()(k, const T&));
			// m[k1] = m[k2] with a new k1 is the caller's aliasing problem and is not generated
			switch (form % 5) {
			case 0:
				c.set(ak1, c[ak2]); // k2 is present: this operator[] does not insert
				break;
			case 1:
				c.set(ak1, *c.find(ak2));
				break;
			case 2: {
				V def = V();
				c.set(ak1, c.get(ak2, def));
				break;
			}
			case 3:
				c.set(ak1, ((const C&)c)[ak2]);
				break;
			default:
				if constexpr (ORD)
					c(ak1, *((const C&)c).find(ak2));
				else
					c.set(ak1, *c.find(ak2));
			}
			post_insert(s, b);
			m[mk] = want;
		}
		else if (n == "conv") { // converting constructors from this map (Map<int,int> only)
			if constexpr (ORD && std::is_same<K, int>::value && std::is_same<V, int>::value) {
				check_conversions(c, m, universe, o, F);
				check(s, "conv"); // the source is unchanged
				return;
			}
			else
				return;
		}
		else if (n == "dup") {
			c.dup();
		}
		else if (n == "copy") { // a read-only second handle, dropped before the next mutation
			C h(c);
			VF_CHECK(h.length() == (int)m.size(), "copy of slot ", s, " has length ", h.length(), ", model ", m.size());
			for (auto& kv : m) {
				const V* p = h.find(Conv<K>::to(kv.first));
				VF_CHECK(p && Conv<V>::from(*p) == kv.second, "copy of slot ", s, " lacks key ", Conv<K>::show(kv.first));
			}
		}
		else if (n == "add") { // merge (Map/Dic only)
			int t = slotOf(o.i(1));
			if constexpr (ORD) {
				F.merges++;
				for (auto& kv : model[t])
					if (m.count(kv.first)) {
						F.merge_overlap++;
						break;
					}
				if (F.cloned[s])
					F.clone_then_mut++;
				c.add(*slot[t]);
				Model src = model[t];
				for (auto& kv : src)
					m[kv.first] = kv.second;
			}
			else
				return;
		}
		else if (n == "keys") {
			if constexpr (ORD) {
				Array<K> ks = c.keys();
				VF_CHECK(ks.length() == (int)m.size(), "keys() of slot ", s, " has ", ks.length(), " elements, model ", m.size());
				int i = 0;
				for (auto& kv : m) {
					VF_CHECK(Conv<K>::from(ks[i]) == kv.first, "keys()[", i, "] of slot ", s, " is ", Conv<K>::show(Conv<K>::from(ks[i])), ", expected ", Conv<K>::show(kv.first));
					i++;
				}
				const auto& kv = ((const C&)c).kv();
				VF_CHECK(kv.length() == (int)m.size(), "kv() length");
				i = 0;
				for (auto& e : m) {
					VF_CHECK(Conv<K>::from(kv[i].key) == e.first && Conv<V>::from(kv[i].value) == e.second, "kv()[", i, "] of slot ", s);
					i++;
				}
			}
			else
				return;
		}
		else if (n == "eq") {
			int t = slotOf(o.i(1));
			do_eq(s, t, "eq");
			return;
		}
		else if (n == "rebuild") { // slot t := the contents of slot s inserted in another order (and table size)
			int t = slotOf(o.i(1));
			if (t == s)
				t = (s + 1) % 3;
			Seq items = seq_of(m);
			long long mode = o.i(3);
			if (mode < 0)
				mode = -mode;
			switch (mode % 4) {
			case 0:
				std::reverse(items.begin(), items.end());
				break;
			case 1:
				break;
			case 2: { // odd positions first, then even positions
				Seq a, b;
				for (size_t i = 0; i < items.size(); i++)
					(i % 2 ? a : b).push_back(items[i]);
				a.insert(a.end(), b.begin(), b.end());
				items = a;
				break;
			}
			default: { // rotate by mode/4
				if (!items.empty())
					std::rotate(items.begin(), items.begin() + (size_t)((mode / 4) % (long long)items.size()), items.end());
				break;
			}
			}
			delete slot[t];
			slot[t] = 0;
			slot[t] = make(o.i(2));
			model[t].clear();
			F.cloned[t] = false;
			int b = tablen(t);
			for (auto& kv : items) {
				if (mode & 8)
					slot[t]->set(Conv<K>::to(kv.first), Conv<V>::to(kv.second));
				else
					(*slot[t])[Conv<K>::to(kv.first)] = Conv<V>::to(kv.second);
			}
			post_insert(t, b);
			model[t] = m;
			check(t, "rebuild");
			do_eq(s, t, "rebuild");
			return;
		}
		else if (n == "many") {
			insert_many(s, o);
		}
		else if (n == "init") { // Map(k, v) / initializer-list construction (ordered kinds)
			if constexpr (ORD) {
				delete slot[s];
				slot[s] = 0;
				if (o.i(3) == 2) { // empty initializer list
					typedef typename Map<K, V>::KeyVal KVT;
					std::initializer_list<KVT> il = {};
					slot[s] = new C(il);
					m.clear();
					F.cloned[s] = false;
					F.degenerate++;
					check_all("init");
					return;
				}
				if (o.i(3) & 1)
					slot[s] = new C(Conv<K>::to(mk), Conv<V>::to(mv));
				else {
					typedef typename Map<K, V>::KeyVal KVT;
					MK k2;
					if constexpr (std::is_same<K, String>::value)
						k2 = mk + "x";
					else
						k2 = (int)((unsigned)mk + 1u);
					std::initializer_list<KVT> il = {KVT(Conv<K>::to(k2), Conv<V>::to(mv)), KVT(Conv<K>::to(mk), Conv<V>::to(mv)), KVT(Conv<K>::to(k2), Conv<V>::to(MV()))};
					slot[s] = new C(il);
					m.clear();
					m[k2] = MV();
				}
				if (o.i(3) & 1)
					m.clear();
				m[mk] = mv;
				F.cloned[s] = false;
				probe(mk);
			}
			else
				return;
		}
		else
			return; // unknown op: ignored (any op list is tolerated)

		size_t total = model[0].size() + model[1].size() + model[2].size();
		if (total <= 48)
			check_all(n.c_str());
		else {
			check(s, n.c_str());
			if (touched2 >= 0 && touched2 != s)
				check(touched2, n.c_str());
		}
	}

	void run(const vf::Case& cs)
	{
		for (auto& o : cs.ops)
			step(o);
		check_all("the last op");
	}
};

// ---------------------------------------------------------------------------------------------
// Set kinds

template <class T>
struct SetRun {
	typedef Set<T> C;
	typedef typename Conv<T>::M MK;
	typedef std::set<MK> Model;
	C* slot[3];
	Model model[3];
	std::set<MK> universe;
	Flags& F;

	static C* make(long long n)
	{
		if (n == 0)
			return new C();
		if (n < 0)
			n = -n;
		return new C((int)(1 + (n - 1) % 600));
	}
	SetRun(Flags& f) : F(f)
	{
		for (int i = 0; i < 3; i++)
			slot[i] = 0;
		for (int i = 0; i < 3; i++)
			slot[i] = new C();
	}
	~SetRun()
	{
		for (int i = 0; i < 3; i++)
			delete slot[i];
	}
	void probe(const MK& k)
	{
		if (universe.size() < 400)
			universe.insert(k);
	}

	static void cmp_seq(std::vector<MK> got, const Model& m, const char* style, const char* what, const char* after)
	{
		std::sort(got.begin(), got.end());
		std::vector<MK> want(m.begin(), m.end());
		if (got == want)
			return;
		size_t i = 0;
		while (i < got.size() && i < want.size() && got[i] == want[i])
			i++;
		std::string g = i < got.size() ? Conv<T>::show(got[i]) : "(end)", w = i < want.size() ? Conv<T>::show(want[i]) : "(end)";
		VF_FAIL("after ", after, ": ", style, " of ", what, " gives ", got.size(), " items, model has ", want.size(), "; first difference at sorted position ", i, ": got ", g,
		        " want ", w);
	}

	void check_set(const C& c, const Model& m, const char* what, const char* after)
	{
		VF_CHECK(c.length() == (int)m.size(), "after ", after, ": ", what, " length() = ", c.length(), ", model has ", m.size(), " members");
		VF_CHECK(c.empty() == m.empty(), "after ", after, ": ", what, " empty()");
		if ((int)m.size() > F.maxlen)
			F.maxlen = (int)m.size();
		for (auto& k : m)
			VF_CHECK(c.contains(Conv<T>::to(k)), "after ", after, ": ", what, " contains(", Conv<T>::show(k), ") is false for a member");
		for (auto& k : universe)
			if (!m.count(k))
				VF_CHECK(!c.contains(Conv<T>::to(k)), "after ", after, ": ", what, " contains(", Conv<T>::show(k), ") is true for a non-member");
		{
			std::vector<MK> got;
			for (typename C::Enumerator e = c.all(); e; ++e)
				got.push_back(Conv<T>::from(*e));
			cmp_seq(got, m, "Enumerator", what, after);
		}
		{
			std::vector<MK> got;
			foreach (const T& x, c)
				got.push_back(Conv<T>::from(x));
			cmp_seq(got, m, "foreach", what, after);
		}
		{
			std::vector<MK> got;
			for (auto& x : c)
				got.push_back(Conv<T>::from(x));
			cmp_seq(got, m, "range-for", what, after);
		}
	}
	void check(int s, const char* after)
	{
		char what[16];
		snprintf(what, sizeof what, "slot %d", s);
		check_set(*slot[s], model[s], what, after);
	}
	void check_all(const char* after)
	{
		for (int i = 0; i < 3; i++)
			check(i, after);
	}
	void check_array(const C& c, const Model& m, const char* what)
	{
		Array<T> a = c.array();
		std::vector<MK> got;
		for (int i = 0; i < a.length(); i++)
			got.push_back(Conv<T>::from(a[i]));
		cmp_seq(got, m, "array()", what, "array");
		Array<T> b = c; // conversion operator
		VF_CHECK(b.length() == a.length(), "operator Array<T>() length");
	}

	bool nthkey(int s, long long j, MK& out)
	{
		const Model& m = model[s];
		if (m.empty())
			return false;
		size_t n = (size_t)(((j % (long long)m.size()) + (long long)m.size()) % (long long)m.size());
		auto it = m.begin();
		std::advance(it, n);
		out = *it;
		return true;
	}
	std::vector<MK> order_of(const C& c)
	{
		std::vector<MK> r;
		for (typename C::Enumerator e = c.all(); e; ++e)
			r.push_back(Conv<T>::from(*e));
		return r;
	}
	void pre_mut(int s, const MK& mk, bool removal)
	{
		if (F.cloned[s])
			F.clone_then_mut++;
		note_chain(*slot[s], Conv<T>::to(mk), removal, F);
		if (removal && model[s].count(mk))
			F.removed_present++;
		if (!removal && model[s].count(mk))
			F.overwrites++;
	}
	void post_insert(int s, int before)
	{
		if (slot[s]->a.length() != before)
			F.rehash++;
	}

	void do_eq(int s, int t, const char* after)
	{
		const C &x = *slot[s], &y = *slot[t];
		bool want = model[s] == model[t];
		bool e1 = x == y, e2 = y == x, n1 = x != y, n2 = y != x;
		const char* built = "";
		if (want) {
			F.eq_equal++;
			if (s != t && order_of(x) != order_of(y)) {
				F.eq_equal_difforder++;
				built = " (the two enumerate in different orders)";
			}
		}
		else {
			F.eq_unequal++;
			if (model[s].size() == model[t].size())
				F.eq_unequal_samelen++;
		}
		VF_CHECK(e1 == want, after, ": slot", s, " == slot", t, " is ", e1, " but the members are ", want ? "equal" : "different", " (", model[s].size(), " and ",
		         model[t].size(), " members)", built);
		VF_CHECK(e2 == want, after, ": slot", t, " == slot", s, " is ", e2, " but the members are ", want ? "equal" : "different", built);
		VF_CHECK(n1 == !want, after, ": slot", s, " != slot", t, " is ", n1, " but the members are ", want ? "equal" : "different", built);
		VF_CHECK(n2 == !want, after, ": slot", t, " != slot", s, " is ", n2, " but the members are ", want ? "equal" : "different", built);
	}

	void step(const vf::Op& o)
	{
		const std::string& n = o.name;
		int s = slotOf(o.i(0));
		C& c = *slot[s];
		Model& m = model[s];
		MK mk = Conv<T>::key(o);
		int touched2 = -1;
		F.ops++;
		if (n == "add") {
			probe(mk);
			pre_mut(s, mk, false);
			int b = c.a.length();
			if (F.ops % 3 == 0) { // a member added through the publicly inherited map interface (stored value 0), after seeded C02-P
				static_cast<HashMap<T, int>&>(c).set(Conv<T>::to(mk), 0);
				F.base_adds++;
			}
			else
				c << Conv<T>::to(mk);
			post_insert(s, b);
			m.insert(mk);
		}
		else if (n == "rm" || n == "rmnth") {
			if (n == "rmnth" && !nthkey(s, o.i(1), mk))
				return;
			probe(mk);
			pre_mut(s, mk, true);
			T x = Conv<T>::to(mk);
			c >> x;
			m.erase(mk);
		}
		else if (n == "has") {
			probe(mk);
			bool r = c.contains(Conv<T>::to(mk)), want = m.count(mk) != 0;
			VF_CHECK(r == want, "contains(", Conv<T>::show(mk), ") of slot ", s, " is ", r, ", item is ", want ? "a member" : "not a member");
		}
		else if (n == "clear") {
			c.clear();
			m.clear();
		}
		else if (n == "new") {
			delete slot[s];
			slot[s] = 0;
			slot[s] = make(o.i(1));
			m.clear();
			F.cloned[s] = false;
			if (o.i(1) != 0)
				F.tablesizes++;
			if (o.i(1) != 0 && (o.i(1) < 0 ? -o.i(1) : o.i(1)) <= 3)
				F.degenerate++;
		}
		else if (n == "clone") {
			int t = slotOf(o.i(1));
			{
				C tmp(c); // Set has no clone() of its own type: copy + dup() is the documented way to detach
				tmp.dup();
				*slot[t] = tmp;
			}
			if (s != t)
				model[t] = m;
			F.clones++;
			F.cloned[s] = F.cloned[t] = true;
			touched2 = t;
		}
		else if (n == "cloneswap") { // slot t := detached copy of slot s with its j-th member replaced by another item; compared with s
			int t = slotOf(o.i(2));
			if (t == s)
				t = (s + 1) % 3;
			{
				C tmp(c);
				tmp.dup();
				*slot[t] = tmp;
			}
			model[t] = m;
			F.clones++;
			F.cloned[s] = F.cloned[t] = true;
			MK k;
			if (nthkey(t, o.i(3), k)) {
				probe(mk);
				probe(k);
				pre_mut(t, k, true);
				T x = Conv<T>::to(k);
				*slot[t] >> x;
				model[t].erase(k);
				*slot[t] << Conv<T>::to(mk);
				model[t].insert(mk);
			}
			check(t, "cloneswap");
			check(s, "cloneswap");
			do_eq(s, t, "cloneswap");
			return;
		}
		else if (n == "dup") {
			c.dup();
		}
		else if (n == "copy") {
			C h(c);
			check_set(h, m, "a copy", "copy");
		}
		else if (n == "merge") {
			int t = slotOf(o.i(1));
			F.merges++;
			for (auto& k : model[t])
				if (m.count(k)) {
					F.merge_overlap++;
					break;
				}
			if (F.cloned[s])
				F.clone_then_mut++;
			int b = c.a.length();
			c << *slot[t];
			post_insert(s, b);
			Model src = model[t];
			m.insert(src.begin(), src.end());
		}
		else if (n == "cont" || n == "any") {
			int t = slotOf(o.i(1));
			F.algebra++;
			if (n == "cont") {
				bool want = std::includes(m.begin(), m.end(), model[t].begin(), model[t].end());
				bool r = c.contains(*slot[t]);
				VF_CHECK(r == want, "slot", s, ".contains(slot", t, ") is ", r, ", expected ", want, " (", m.size(), " and ", model[t].size(), " members)");
			}
			else {
				bool want = false;
				for (auto& k : model[t])
					if (m.count(k))
						want = true;
				bool r = c.containsAny(*slot[t]);
				VF_CHECK(r == want, "slot", s, ".containsAny(slot", t, ") is ", r, ", expected ", want);
			}
			return;
		}
		else if (n == "union" || n == "inter" || n == "diff") {
			int t = slotOf(o.i(1)), u = slotOf(o.i(2));
			F.algebra++;
			Model r;
			if (n == "union") {
				r = m;
				r.insert(model[t].begin(), model[t].end());
			}
			else
				for (auto& k : m)
					if ((model[t].count(k) != 0) == (n == "inter"))
						r.insert(k);
			{
				C res = n == "union" ? c + *slot[t] : n == "inter" ? (c & *slot[t]) : c - *slot[t];
				check_set(res, r, n.c_str(), n.c_str());
				// the operands are unchanged
				check_set(c, m, "left operand", n.c_str());
				check_set(*slot[t], model[t], "right operand", n.c_str());
				if (o.i(3) & 1) { // also the named forms
					if (n == "inter")
						check_set(c.in(*slot[t]), r, "in()", n.c_str());
					if (n == "diff")
						check_set(c.notIn(*slot[t]), r, "notIn()", n.c_str());
				}
				*slot[u] = res;
			}
			model[u] = r;
			F.cloned[u] = false;
			s = u;
		}
		else if (n == "array") {
			char what[16];
			snprintf(what, sizeof what, "slot %d", s);
			check_array(c, m, what);
			return;
		}
		else if (n == "fromarr") { // ints: fromarr slot base stride count dup ; strings: fromarr slot fam base count dup
			long long cnt = o.i(3);
			if (cnt < 0)
				cnt = -cnt;
			cnt %= 600;
			Array<T> arr;
			Model r;
			for (int i = 0; i < cnt; i++) {
				MK k = Conv<T>::nth((int)o.i(1), (int)o.i(2), i);
				arr << Conv<T>::to(k);
				r.insert(k);
				if ((o.i(4) & 1) && i % 3 == 0)
					arr << Conv<T>::to(k); // duplicates in the source array
			}
			delete slot[s];
			slot[s] = 0;
			slot[s] = new C(arr);
			model[s] = r;
			F.cloned[s] = false;
			if (cnt <= 2)
				F.degenerate++;
			if (slot[s]->a.length() != 258)
				F.rehash++;
		}
		else if (n == "fromil") { // initializer list of 0..4 items
			long long cnt = o.i(3);
			if (cnt < 0)
				cnt = -cnt;
			cnt %= 5;
			T k[4];
			Model r;
			for (int i = 0; i < 4; i++) {
				MK x = Conv<T>::nth((int)o.i(1), (int)o.i(2), i);
				k[i] = Conv<T>::to(x);
				if (i < cnt)
					r.insert(x);
			}
			delete slot[s];
			slot[s] = 0;
			switch (cnt) {
			case 0: {
				std::initializer_list<T> il = {};
				slot[s] = new C(il);
				break;
			}
			case 1: {
				std::initializer_list<T> il = {k[0]};
				slot[s] = new C(il);
				break;
			}
			case 2: {
				std::initializer_list<T> il = {k[0], k[1]};
				slot[s] = new C(il);
				break;
			}
			case 3: {
				std::initializer_list<T> il = {k[0], k[1], k[2]};
				slot[s] = new C(il);
				break;
			}
			default: {
				std::initializer_list<T> il = {k[0], k[1], k[2], k[3]};
				slot[s] = new C(il);
				break;
			}
			}
			model[s] = r;
			F.cloned[s] = false;
		}
		else if (n == "eq") {
			do_eq(s, slotOf(o.i(1)), "eq");
			return;
		}
		else if (n == "rebuild") {
			int t = slotOf(o.i(1));
			if (t == s)
				t = (s + 1) % 3;
			std::vector<MK> items(m.begin(), m.end());
			long long mode = o.i(3);
			if (mode < 0)
				mode = -mode;
			switch (mode % 4) {
			case 0:
				std::reverse(items.begin(), items.end());
				break;
			case 1:
				break;
			case 2: {
				std::vector<MK> a, b;
				for (size_t i = 0; i < items.size(); i++)
					(i % 2 ? a : b).push_back(items[i]);
				a.insert(a.end(), b.begin(), b.end());
				items = a;
				break;
			}
			default:
				if (!items.empty())
					std::rotate(items.begin(), items.begin() + (size_t)((mode / 4) % (long long)items.size()), items.end());
			}
			delete slot[t];
			slot[t] = 0;
			slot[t] = make(o.i(2));
			model[t].clear();
			F.cloned[t] = false;
			int b = slot[t]->a.length();
			for (auto& k : items)
				*slot[t] << Conv<T>::to(k);
			post_insert(t, b);
			model[t] = m;
			check(t, "rebuild");
			do_eq(s, t, "rebuild");
			return;
		}
		else if (n == "many") {
			long long cnt = o.i(3);
			if (cnt < 0)
				cnt = -cnt;
			cnt %= 4000;
			int b = c.a.length();
			for (int i = 0; i < cnt; i++) {
				MK k = Conv<T>::nth((int)o.i(1), (int)o.i(2), i);
				if (i < 4)
					pre_mut(s, k, false);
				c << Conv<T>::to(k);
				m.insert(k);
			}
			post_insert(s, b);
		}
		else
			return;

		size_t total = model[0].size() + model[1].size() + model[2].size();
		if (total <= 48)
			check_all(n.c_str());
		else {
			check(s, n.c_str());
			if (touched2 >= 0 && touched2 != s)
				check(touched2, n.c_str());
		}
	}

	void run(const vf::Case& cs)
	{
		for (auto& o : cs.ops)
			step(o);
		check_all("the last op");
		for (int i = 0; i < 3; i++)
			check_array(*slot[i], model[i], "a slot at the end");
	}
};

// ---------------------------------------------------------------------------------------------

static const char* KINDS[] = {"map_ii", "dic_s", "map_is", "hmap_ii", "hdic_i", "set_i", "set_s"};

static bool is_hash(const std::string& part) { return part != "map_ii" && part != "dic_s" && part != "map_is"; }

static void dispatch(const std::string& part, const vf::Case& c, Flags& F)
{
	if (part == "map_ii") {
		MapRun<Map<int, int>, int, int, true> r(F);
		r.run(c);
	}
	else if (part == "dic_s") {
		MapRun<Dic<String>, String, String, true> r(F);
		r.run(c);
	}
	else if (part == "map_is") { // class-type values behind int keys
		MapRun<Map<int, String>, int, String, true> r(F);
		r.run(c);
	}
	else if (part == "hmap_ii") {
		MapRun<HashMap<int, int>, int, int, false> r(F);
		r.run(c);
	}
	else if (part == "hdic_i") {
		MapRun<HashDic<int>, String, int, false> r(F);
		r.run(c);
	}
	else if (part == "set_i") {
		SetRun<int> r(F);
		r.run(c);
	}
	else if (part == "set_s") {
		SetRun<String> r(F);
		r.run(c);
	}
	else
		VF_FAIL("unknown part ", part);
}

static bool nontrivial(const std::string& part, const Flags& F)
{
	if (is_hash(part))
		return F.chain_mut > 0 || F.rehash > 0 || F.eq_equal_difforder > 0;
	return F.small_found != 0 && popcount(F.small_nf) >= 3;
}

static void record(const std::string& part, const vf::Case& c, const Flags& F)
{
	vf::Stats& st = vf::stats();
	bool nt = nontrivial(part, F);
	if (nt)
		st.nt(vf::fnv(vf::serialize(c), vf::fnv(part)));
	auto cl = [&](const char* name, bool cond) {
		if (cond)
			st.cls(part + "." + name);
	};
	cl("cases", true);
	cl("nontrivial", nt);
	cl("empty_history", c.ops.empty());
	cl("ops>=40", F.ops >= 40);
	cl("len>=225", F.maxlen >= 225);
	cl("len>=1794", F.maxlen >= 1794);
	cl("remove_present", F.removed_present > 0);
	cl("overwrite", F.overwrites > 0);
	cl("clone_then_mutate", F.clone_then_mut > 0);
	cl("set.member_added_through_base_map_interface", F.base_adds > 0);
	cl("eq_equal", F.eq_equal > 0);
	cl("eq_unequal_same_length", F.eq_unequal_samelen > 0);
	if (part[0] != 's')
		cl("eq_unequal_one_default_valued_key_moved", F.eq_default_moved > 0);
	cl("degenerate_construction", F.degenerate > 0);
	if (part[0] != 's') {
		cl("set_value_ref_to_own_entry", F.setref > 0);
		cl("set_value_ref.new_key", F.setref_new > 0);
		cl("set_value_ref.new_key_before_aliased", F.setref_before > 0);
		cl("set_value_ref.new_key_after_aliased", F.setref_after > 0);
		if (!is_hash(part))
			cl("set_value_ref.new_key_at_length==capacity", F.setref_full > 0);
	}
	if (part == "map_ii") {
		cl("conv", F.convs > 0);
		cl("conv_key_order_changed", F.conv_reordered > 0);
		cl("conv_keys_merged", F.conv_merged > 0);
	}
	if (is_hash(part)) {
		cl("chain>=2_overwrite_or_remove", F.chain_mut > 0);
		cl("chain_head_removed", F.head_rm > 0);
		cl("chain_nonhead_removed", F.nonhead_rm > 0);
		cl("rehash", F.rehash > 0);
		cl("rehash>=2", F.rehash >= 2);
		cl("eq_equal_different_build_order", F.eq_equal_difforder > 0);
		cl("sized_table", F.tablesizes > 0);
		if (part[0] == 's') {
			cl("algebra", F.algebra > 0);
			cl("merge", F.merges > 0);
			cl("merge_overlapping", F.merge_overlap > 0);
		}
		else
			cl("eq_unequal_values_only", F.eq_values_only > 0);
	}
	else {
		cl("small_found", F.small_found != 0);
		cl("small_notfound>=3paths", popcount(F.small_nf) >= 3);
		cl("small_notfound>=6paths", popcount(F.small_nf) >= 6);
		cl("front_insert", F.front_insert > 0);
		cl("middle_insert", F.mid_insert > 0);
		cl("merge", F.merges > 0);
		cl("merge_overlapping", F.merge_overlap > 0);
		cl("eq_unequal_values_only", F.eq_values_only > 0);
	}
	static std::set<std::string>* sampled = new std::set<std::string>;
	if (nt && c.ops.size() >= 5 && c.ops.size() <= 10 && !sampled->count(part) && st.classes[part + ".cases"] > 40) {
		sampled->insert(part);
		st.sample(part + ":\n" + vf::serialize(c), 6);
	}
}

void vf_run_case(const std::string& part, const vf::Case& c)
{
	Flags F;
	size_t base = vf::allocated_bytes();
	dispatch(part, c, F);
	size_t after = vf::allocated_bytes();
	if (after != base) {
		// once more, to discount one-time static initialisation inside the library
		Flags F2;
		size_t base2 = vf::allocated_bytes();
		dispatch(part, c, F2);
		size_t after2 = vf::allocated_bytes();
		VF_CHECK(after2 == base2, "storage not released: ", (long long)after2 - (long long)base2,
		         " bytes are still allocated after every container of the case was destroyed (", base2, " before, ", after2, " after)");
	}
	record(part, c, F);
}

// ---------------------------------------------------------------------------------------------
// generators

namespace {

struct Cfg {
	bool strkey, strval, ord, set;
	bool thorough;
};

rc::Gen<int> ikey(Cfg g)
{
	using namespace rc;
	if (g.ord)
		return gen::mapcat(vf::irange<int>(0, 19), [](int w) -> Gen<int> {
			if (w < 13)
				return vf::irange<int>(-1, 7);
			if (w < 16)
				return gen::map(gen::pair(vf::irange<int>(0, 1), vf::irange<int>(0, 4)), [](std::pair<int, int> p) { return p.first + 256 * p.second; });
			if (w < 18)
				return gen::elementOf(std::vector<int>{INT_MIN, INT_MIN + 1, INT_MAX, INT_MAX - 1, -1, 0});
			return vf::irange<int>(-1000, 1000);
		});
	return gen::mapcat(vf::irange<int>(0, 19), [](int w) -> Gen<int> {
		if (w < 12) // two buckets of the 256-table; the 2048-multiples share a bucket in every table up to 2048
			return gen::map(gen::tuple(vf::irange<int>(0, 1), gen::elementOf(std::vector<int>{256, 2048}), vf::irange<int>(0, 4)),
			                [](std::tuple<int, int, int> t) { return std::get<0>(t) + std::get<1>(t) * std::get<2>(t); });
		if (w < 16)
			return gen::map(gen::tuple(vf::irange<int>(0, 3), gen::elementOf(std::vector<int>{1, 8, 64, 256, 2048, 16384, -256, -2048, 1 << 20}), vf::irange<int>(0, 7)),
			                [](std::tuple<int, int, int> t) { return std::get<0>(t) + std::get<1>(t) * std::get<2>(t); });
		if (w < 18)
			return vf::irange<int>(-3, 12);
		return gen::elementOf(std::vector<int>{INT_MIN, INT_MIN + 256, INT_MAX, INT_MAX - 2048, -1, -256, -2048});
	});
}

rc::Gen<std::string> skeygen(Cfg g)
{
	using namespace rc;
	// (family, index) -> string; ordered kinds lean on edge/prefix strings, hash kinds on the equal-hash family
	std::vector<int> fams = g.ord ? std::vector<int>{3, 3, 3, 3, 2, 2, 2, 1, 1, 0} : std::vector<int>{1, 1, 1, 1, 1, 1, 3, 2, 2, 0};
	return gen::mapcat(gen::elementOf(fams), [](int fam) -> Gen<std::string> {
		int hi = fam == 0 ? 300 : fam == 1 ? 9 : 15;
		return gen::map(gen::oneOf(vf::irange<int>(0, hi), vf::irange<int>(0, fam == 1 ? 63 : hi)), [fam](int i) { return skey(fam, i); });
	});
}

rc::Gen<int> ival()
{
	return rc::gen::oneOf(vf::irange<int>(-2, 5), rc::gen::elementOf(std::vector<int>{INT_MIN, INT_MAX, 1000000}));
}

rc::Gen<std::string> sval()
{
	return rc::gen::map(rc::gen::pair(rc::gen::elementOf(std::vector<std::string>{"", "v", "w", "a value longer than the inline buffer of String", "x"}), vf::irange<int>(0, 3)),
	                    [](std::pair<std::string, int> p) { return p.second ? p.first + std::to_string(p.second) : p.first; });
}

// one op; all choices are drawn inside gen::exec so that rapidcheck can shrink them
rc::Gen<vf::Op> opgen(Cfg g)
{
	using namespace rc;
	return gen::exec([g]() {
		vf::Op o;
		int w = *vf::irange<int>(0, 99);
		long long s = *vf::irange<int>(0, 2), t = *vf::irange<int>(0, 2);
		auto setkey = [&]() {
			if (g.strkey) {
				o.s.resize(2);
				o.s[0] = *skeygen(g);
				o.a[1] = 0;
			}
			else
				o.a[1] = *ikey(g);
		};
		auto setval = [&]() {
			if (g.strval) {
				o.s.resize(2);
				o.s[1] = *sval();
			}
			else
				o.a[2] = *ival();
		};
		// table size argument of new/rebuild: 0 = default constructor
		auto tsize = [&]() -> long long { return *gen::elementOf(std::vector<int>{0, 0, 1, 2, 3, 4, 7, 8, 16, 100, 256, 257, 600}); };
		auto many = [&](const char* name) {
			o.name = name;
			std::vector<int> counts = {3, 9, 10, 57, 60, 224, 225, 226, 240};
			if (g.ord)
				counts = {3, 4, 5, 12, 13, 40};
			else if (g.thorough) {
				counts.push_back(449);
				counts.push_back(460);
				counts.push_back(1793);
				counts.push_back(1800);
			}
			int cnt = *gen::elementOf(counts);
			if (g.strkey) {
				int fam = *gen::elementOf(std::vector<int>{0, 0, 0, 1, 2});
				if (fam == 1 && cnt > 64)
					cnt = 64;
				if (fam == 2 && cnt > 16)
					cnt = 16;
				o.a = {s, fam, *vf::irange<int>(0, 40), cnt, 0};
			}
			else
				o.a = {s, *ikey(g), *gen::elementOf(std::vector<int>{1, 1, 3, 256, 2048, -1, -256, 8}), cnt, *ival()};
			if (g.strval && !g.set) {
				o.s.resize(2);
				o.s[1] = *sval();
			}
		};
		o.a = {s, 0, 0, 0};
		if (g.set) {
			if (w < 22) {
				o.name = "add";
				setkey();
			}
			else if (w < 30) {
				o.name = "rm";
				setkey();
			}
			else if (w < 40) {
				o.name = "rmnth";
				o.a[1] = *vf::irange<int>(0, 400);
			}
			else if (w < 45) {
				o.name = "has";
				setkey();
			}
			else if (w < 47)
				o.name = "clear";
			else if (w < 51) {
				o.name = "new";
				o.a[1] = tsize();
			}
			else if (w < 55) {
				o.name = "clone";
				o.a[1] = t;
			}
			else if (w < 57)
				o.name = "dup";
			else if (w < 59)
				o.name = "copy";
			else if (w < 64) {
				o.name = "merge";
				o.a[1] = t;
			}
			else if (w < 68) {
				o.name = *gen::elementOf(std::vector<std::string>{"cont", "any"});
				o.a[1] = t;
			}
			else if (w < 78) {
				o.name = *gen::elementOf(std::vector<std::string>{"union", "inter", "diff"});
				o.a = {s, t, *vf::irange<int>(0, 2), *vf::irange<int>(0, 1)};
			}
			else if (w < 80)
				o.name = "array";
			else if (w < 83) {
				many("fromarr");
				if (o.a[3] > 60)
					o.a[3] = 226;
				if (*vf::irange<int>(0, 2) == 0)
					o.a[3] = *vf::irange<int>(0, 2); // arrays of length 0, 1, 2 (with the duplicate flag: 1 -> {x,x})
				o.a[4] = *vf::irange<int>(0, 1);
			}
			else if (w < 85) {
				many("fromil");
				o.a[3] = *vf::irange<int>(0, 4);
			}
			else if (w < 91) {
				o.name = "eq";
				o.a[1] = t;
			}
			else if (w < 95) {
				o.name = "rebuild";
				o.a = {s, t, tsize(), *vf::irange<int>(0, 40)};
			}
			else if (w < 97) {
				o.name = "cloneswap";
				setkey();
				o.a[2] = t;
				o.a[3] = *vf::irange<int>(0, 400);
			}
			else
				many("many");
			return o;
		}
		if (w < 11) {
			o.name = "set";
			setkey();
			setval();
		}
		else if (w < 24) {
			if (*vf::irange<int>(0, g.strval ? 1 : 3) == 0) {
				o.name = "setref";
				setkey();
				o.a[2] = *vf::irange<int>(0, 400);
				o.a[3] = *vf::irange<int>(0, 4);
			}
			else {
				o.name = "idx";
				setkey();
				setval();
			}
		}
		else if (w < 27) {
			o.name = "idxr";
			setkey();
		}
		else if (w < 30) {
			o.name = "cidx";
			setkey();
		}
		else if (w < 34) {
			o.name = "get";
			setkey();
			setval();
		}
		else if (w < 39) {
			o.name = "find";
			setkey();
		}
		else if (w < 47) {
			o.name = "rm";
			setkey();
		}
		else if (w < 56) {
			o.name = "rmnth";
			o.a[1] = *vf::irange<int>(0, 400);
		}
		else if (w < 61) {
			o.name = "ownth";
			o.a[1] = *vf::irange<int>(0, 400);
			setval();
			o.a[3] = *vf::irange<int>(0, 1);
		}
		else if (w < (g.ord ? 65 : 63))
			o.name = "clear";
		else if (w < 67) {
			o.name = "new";
			o.a[1] = g.ord ? 0 : tsize();
		}
		else if (w < 72) {
			o.name = "clone";
			o.a[1] = t;
		}
		else if (w < 74)
			o.name = "dup";
		else if (w < 76)
			o.name = "copy";
		else if (w < 82) {
			if (g.ord) {
				o.name = *gen::elementOf(g.strkey ? std::vector<std::string>{"add", "add", "add", "keys", "init"}
				                                  : std::vector<std::string>{"add", "add", "add", "keys", "init", "conv", "conv"});
				if (o.name == "conv")
					o.a = {s, *vf::irange<int>(0, 400), *vf::irange<int>(0, 400), *vf::irange<int>(0, 400)};
				else if (o.name == "init") {
					setkey();
					setval();
					o.a[3] = *vf::irange<int>(0, 2);
				}
				else
					o.a[1] = t;
			}
			else {
				o.name = "rmnth";
				o.a[1] = *vf::irange<int>(0, 400);
			}
		}
		else if (w < 89) {
			o.name = "eq";
			o.a[1] = t;
		}
		else if (w < 94) {
			o.name = "rebuild";
			o.a = {s, t, g.ord ? 0 : tsize(), *vf::irange<int>(0, 40)};
		}
		else if (w < 96) {
			if (*vf::irange<int>(0, 2) == 0) {
				o.name = "clonemove";
				setkey();
				o.a[2] = t;
				o.a[3] = *vf::irange<int>(0, 400);
			}
			else {
				o.name = "cloneow";
				setval();
				o.a[1] = t;
				o.a[3] = *vf::irange<int>(0, 400);
			}
		}
		else
			many("many");
		return o;
	});
}

rc::Gen<vf::Case> casegen(Cfg g)
{
	return rc::gen::map(rc::gen::container<std::vector<vf::Op>>(opgen(g)), [](const std::vector<vf::Op>& v) {
		vf::Case c;
		c.ops = v;
		return c;
	});
}

Cfg cfg_of(const std::string& part, bool thorough)
{
	Cfg g;
	g.thorough = thorough;
	g.ord = !is_hash(part);
	g.set = part[0] == 's';
	g.strkey = part == "dic_s" || part == "hdic_i" || part == "set_s";
	g.strval = part == "dic_s" || part == "map_is";
	return g;
}

// every ordered map of n = 0..4 keys x every probe position (below, on, between, above the keys) x every lookup-based op:
// the finite space the property's quantifier names for the hand-written binary search
void enumerate_small(const vf::Args& a)
{
	static const char* OPS[] = {"find", "get", "cidx", "set", "idx", "idxr", "rm"};
	uint64_t n = 0, idx = 0;
	for (int kind = 0; kind < 2; kind++)
		for (int size = 0; size <= 4; size++)
			for (int probe = 1; probe <= 2 * size + 1; probe++)
				for (int op = 0; op < 7; op++)
					for (int build = 0; build < 2; build++, idx++) {
						if ((int)(idx % (uint64_t)a.workers) != a.worker)
							continue;
						vf::Case c;
						for (int i = 0; i < size; i++) {
							int k = build ? 2 * (size - i) : 2 * (i + 1); // keys 2,4,..,2*size ascending or descending insertion
							vf::Op o("set", {0, k, 10 + k, 0}, {std::string(1, char('a' + k)), "v" + std::to_string(k)});
							c.ops.push_back(o);
						}
						vf::Op o(OPS[op], {0, probe, 77, 0}, {std::string(1, char('a' + probe)), "probe"});
						c.ops.push_back(o);
						if (!vf::runner().run(kind ? "dic_s" : "map_ii", c))
							return;
						n++;
					}
	vf::stats().part("ordered.sizes0-4.every_probe_position.every_lookup_op", n, true);
}

// set(k1, <reference to the value of the j-th entry of the same map>) for every map size 1..13 (capacities 3, 6, 12 are crossed at
// sizes 3, 6, 12), aliased entry first / middle / last, new key below all / just below / just above the aliased key / above all,
// an existing key (overwrite), and each of the five call forms; Dic<String> and Map<int,String> (class-type values)
void enumerate_setref(const vf::Args& a)
{
	uint64_t n = 0, idx = 0;
	for (int kind = 0; kind < 2; kind++)
		for (int size = 1; size <= 13; size++)
			for (int which = 0; which < 3; which++)
				for (int pos = 0; pos < 5; pos++)
					for (int form = 0; form < 5; form++, idx++) {
						if ((int)(idx % (uint64_t)a.workers) != a.worker)
							continue;
						int j = which == 0 ? 0 : which == 1 ? size / 2 : size - 1; // index of the aliased entry; its key is 2*(j+1)
						int k1 = pos == 0 ? 1 : pos == 1 ? 2 * (j + 1) - 1 : pos == 2 ? 2 * (j + 1) + 1 : pos == 3 ? 2 * size + 1 : 2 * ((j + 1) % size + 1);
						vf::Case c;
						for (int i = 0; i < size; i++) {
							int k = 2 * (i + 1);
							std::string v = i % 3 == 1 ? "s" + std::to_string(k) : "the value of key " + std::to_string(k) + ", on the heap";
							c.ops.push_back(vf::Op("set", {0, k, 0, 0}, {std::string(1, char('A' + k)), v}));
						}
						c.ops.push_back(vf::Op("setref", {0, k1, j, form}, {std::string(1, char('A' + k1)), ""}));
						if (!vf::runner().run(kind ? "dic_s" : "map_is", c))
							return;
						n++;
					}
	vf::stats().part("ordered.set_value_aliasing_own_entry.sizes1-13.every_position.every_form", n, true);
}

// every constructor the containers offer, with degenerate arguments (empty / 1 / 2-element arrays with and without duplicates, empty
// initializer lists, tables of 1, 2, 3 buckets, default construction), the other operand empty or not, followed by each op of the mix
// and a short tail that uses the container again.  HashMap(0) / Set(0) are not generated: zero buckets, out of bounds on the unchanged tree.
void enumerate_degenerate(const vf::Args& a)
{
	uint64_t n = 0, idx = 0;
	auto K = [](const char* name, long long slot, int key, long long x2 = 0, long long x3 = 0) { // op with a key argument
		return vf::Op(name, {slot, key, x2, x3}, {skey(1, key), "v"});
	};
	auto S = [](const char* name, long long a0, long long a1 = 0, long long a2 = 0, long long a3 = 0, long long a4 = 0) { // op without a key
		vf::Op o(name, {a0, a1, a2, a3, a4}, {"", "v"});
		return o;
	};
	for (const char* kind : KINDS) {
		std::string part = kind;
		bool set = part[0] == 's', ord = !is_hash(part);
		std::vector<vf::Op> ctors, follow;
		if (set) {
			for (int cnt = 0; cnt <= 3; cnt++)
				for (int dup = 0; dup < 2; dup++)
					if (cnt > 0 || dup == 0)
						ctors.push_back(S("fromarr", 0, 1, 256, cnt, dup));
			ctors.push_back(S("fromil", 0, 1, 256, 0));
			ctors.push_back(S("fromil", 0, 1, 256, 1));
			for (int t = 0; t <= 3; t++)
				ctors.push_back(S("new", 0, t));
			follow = {K("add", 0, 1), K("add", 0, 5), K("rm", 0, 1), K("rm", 0, 5), S("rmnth", 0, 0), K("has", 0, 1), S("clear", 0), S("clone", 0, 2), S("clone", 1, 0),
			          S("dup", 0), S("copy", 0), S("merge", 0, 1), S("merge", 1, 0), S("merge", 0, 0), S("cont", 0, 1), S("cont", 1, 0), S("any", 0, 1), S("any", 1, 0),
			          S("union", 0, 1, 2, 1), S("union", 1, 0, 2, 1), S("inter", 0, 1, 2, 1), S("inter", 1, 0, 2, 1), S("diff", 0, 1, 2, 1), S("diff", 1, 0, 2, 1),
			          S("union", 0, 0, 2), S("inter", 0, 0, 2), S("diff", 0, 0, 2), S("array", 0), S("eq", 0, 1), S("eq", 1, 0), S("eq", 0, 0), S("rebuild", 0, 2, 1, 0),
			          K("cloneswap", 0, 5, 2, 0), S("many", 0, 1, 256, 9, 0)};
		}
		else {
			if (ord) {
				ctors.push_back(K("init", 0, 1, 0, 2));
				ctors.push_back(K("init", 0, 1, 0, 1));
				ctors.push_back(S("new", 0, 0));
			}
			else
				for (int t = 0; t <= 3; t++)
					ctors.push_back(S("new", 0, t));
			follow = {K("set", 0, 1, 7), K("idx", 0, 5, 7), K("idxr", 0, 1), K("cidx", 0, 1), K("get", 0, 1, 7), K("find", 0, 1), K("rm", 0, 1), S("rmnth", 0, 0), S("ownth", 0, 0, 7),
			          S("clear", 0), S("clone", 0, 2), S("clone", 1, 0), S("dup", 0), S("copy", 0), S("add", 0, 1), S("add", 1, 0), S("add", 0, 0), S("keys", 0), S("eq", 0, 1), S("eq", 1, 0),
			          S("eq", 0, 0), S("rebuild", 0, 2, 1, 0), S("cloneow", 0, 2, 7, 0), K("clonemove", 0, 5, 2, 0), K("setref", 0, 5, 0, 1), S("conv", 0, 0, 0, 0),
			          S("many", 0, 1, set ? 256 : (part == "map_ii" || part == "hmap_ii" || part == "map_is") ? 256 : 0, 9, 3)};
		}
		for (auto& ct : ctors)
			for (int other = 0; other < 2; other++)
				for (auto& f : follow) {
					if ((int)(idx++ % (uint64_t)a.workers) != a.worker)
						continue;
					vf::Case c;
					if (other) { // slot 1 non-empty, overlapping the keys the constructors use
						c.ops.push_back(K(set ? "add" : "set", 1, 1, 3));
						c.ops.push_back(K(set ? "add" : "set", 1, 2, 4));
					}
					c.ops.push_back(ct);
					c.ops.push_back(f);
					c.ops.push_back(K(set ? "add" : "set", 0, 2, 9));
					c.ops.push_back(K(set ? "has" : "find", 0, 1));
					c.ops.push_back(S("eq", 0, 2));
					if (!vf::runner().run(part, c))
						return;
					n++;
				}
	}
	vf::stats().part("degenerate_constructions.every_ctor.every_followup_op", n, true);
}

} // namespace

void vf_search(const vf::Args& a)
{
	[&]() { enumerate_degenerate(a); }();
	[&]() { enumerate_small(a); }();
	[&]() { enumerate_setref(a); }();
	for (const char* kind : KINDS) {
		std::string part = kind;
		[&]() {
			Cfg g = cfg_of(part, !a.quick());
			long n = part == "map_is" ? a.n(500, 1500) : a.n(g.ord ? 800 : 1000, g.ord ? 2500 : 3500);
			vf::check_cases(part, n, a.quick() ? 120 : 200, casegen(g));
		}();
	}
}
