// C06_walk.h -- shared by harness/C06_decode.cpp and fuzz/C06_decode_fz.cpp: walkers over decoded Vars that only use
// Var's accessors (never Var::operator==), and exact-size heap blocks for parser input.
#pragma once
#include "common/vf.h"
#include "common/ref_json.h"
#include <asl/Var.h>
#include <asl/JSON.h>
#include <asl/Xdl.h>
#include <algorithm>

namespace c06 {

using asl::Var;

// a C string in an exact-size heap block: a read past the terminator hits an ASan redzone
struct ExactC {
	char* p;
	ExactC(const char* s, size_t n) : p((char*)malloc(n + 1))
	{
		if (n)
			memcpy(p, s, n);
		p[n] = 0;
	}
	~ExactC() { free(p); }
	ExactC(const ExactC&) = delete;
	void operator=(const ExactC&) = delete;
};

inline const char* tname(Var::Type t)
{
	switch (t) {
	case Var::NONE: return "NONE(invalid)";
	case Var::NUL: return "null";
	case Var::NUMBER: return "NUMBER";
	case Var::BOOL: return "BOOL";
	case Var::INT: return "INT";
	case Var::SSTRING: return "STRING";
	case Var::FLOAT: return "FLOAT";
	case Var::STRING: return "STRING";
	case Var::ARRAY: return "ARRAY";
	case Var::OBJ: return "OBJ";
	}
	return "?";
}

inline std::string str_of(const Var& v)
{
	const char* p = *v;
	return std::string(p, strlen(p));
}

inline std::string show(const Var& v, int depth = 0)
{
	switch (v.type()) {
	case Var::INT: return std::to_string((int)v);
	case Var::NUMBER:
	case Var::FLOAT: {
		char b[40];
		snprintf(b, sizeof b, "%.17g", (double)v);
		return b;
	}
	case Var::BOOL: return (bool)v ? "true" : "false";
	case Var::STRING: return vf::show(str_of(v), 60);
	case Var::ARRAY: return "array(" + std::to_string(v.length()) + ")" + (v.length() && depth < 2 ? "[" + show(v[0], depth + 1) + "..]" : "");
	case Var::OBJ: return "object(" + std::to_string(v.length()) + ")";
	default: return tname(v.type());
	}
}

// exact structural identity of two decoded values (same types, same bits): "the same result"
inline bool same(const Var& a, const Var& b, std::string& why, int depth = 0)
{
	Var::Type t = a.type();
	if (t != b.type()) {
		why = std::string("types ") + tname(t) + " vs " + tname(b.type()) + " (" + show(a) + " vs " + show(b) + ")";
		return false;
	}
	if (depth > 20000) // deeper than anything the generators make; avoids recursing the harness itself to death
		return true;
	switch (t) {
	case Var::INT:
		if ((int)a != (int)b) {
			why = "ints " + show(a) + " vs " + show(b);
			return false;
		}
		return true;
	case Var::NUMBER:
	case Var::FLOAT: {
		double x = (double)a, y = (double)b;
		if (memcmp(&x, &y, 8) != 0) {
			why = "numbers " + show(a) + " vs " + show(b);
			return false;
		}
		return true;
	}
	case Var::BOOL:
		if ((bool)a != (bool)b) {
			why = "bools differ";
			return false;
		}
		return true;
	case Var::STRING:
		if (str_of(a) != str_of(b) || a.length() != b.length()) {
			why = "strings " + show(a) + " vs " + show(b);
			return false;
		}
		return true;
	case Var::ARRAY:
		if (a.length() != b.length()) {
			why = "array lengths " + std::to_string(a.length()) + " vs " + std::to_string(b.length());
			return false;
		}
		for (int i = 0; i < a.length(); i++)
			if (!same(a[i], b[i], why, depth + 1)) {
				why = "[" + std::to_string(i) + "] " + why;
				return false;
			}
		return true;
	case Var::OBJ: {
		if (a.length() != b.length()) {
			why = "object sizes " + std::to_string(a.length()) + " vs " + std::to_string(b.length());
			return false;
		}
		std::vector<std::string> keys;
		foreach2(asl::String & k, Var & x, a)
		{
			(void)x;
			keys.push_back(std::string(*k, (size_t)k.length()));
		}
		for (auto& k : keys) {
			asl::String key(k.c_str());
			if (!b.has(key)) {
				why = "key " + vf::show(k) + " only in one of them";
				return false;
			}
			if (!same(a[key], b[key], why, depth + 1)) {
				why = "." + vf::show(k) + " " + why;
				return false;
			}
		}
		return true;
	}
	default: return true; // NONE == NONE (both rejected), null == null
	}
}

// Reuse of one XdlParser for several documents: reset() is the interface for it (src/Xdl.cpp: back to the ROOT context,
// WAIT_VALUE, empty token buffer).  On the unchanged tree it gives the behaviour of a fresh parser exactly when the
// previous document was COMPLETE (value().ok(): root context, not inside a comment, no open container left on the
// container stack) -- after a truncated document or an unterminated comment reset() leaves stale containers / the comment
// flag behind, so nothing is asserted there.  One more piece of state survives reset(): the pending first half of a
// surrogate pair after an unpaired \uD800-\uDBFF escape (outside the property's domain).  This scan is conservative:
// true if some high-surrogate escape is not directly followed by another \uXXXX.
inline bool may_leave_surrogate_pending(const std::string& t)
{
	auto hex = [](char c) { return (c >= '0' && c <= '9') || ((c | 32) >= 'a' && (c | 32) <= 'f'); };
	for (size_t i = 0; i + 6 <= t.size(); i++) {
		if (t[i] != '\\' || t[i + 1] != 'u')
			continue;
		char a = (char)(t[i + 2] | 32), b = (char)(t[i + 3] | 32);
		if (a == 'd' && (b == '8' || b == '9' || b == 'a' || b == 'b') && hex(t[i + 4]) && hex(t[i + 5])) {
			if (!(i + 12 <= t.size() && t[i + 6] == '\\' && t[i + 7] == 'u'))
				return true;
		}
	}
	return false;
}

// the decoded Var denotes the value the independent parser read (numbers numerically: 5.0 may be an INT)
inline bool same_as_ref(const ref::JValue& r, const Var& v, std::string& why)
{
	Var::Type t = v.type();
	switch (r.kind) {
	case ref::JValue::Null:
		if (t != Var::NUL) {
			why = std::string("null decoded as ") + show(v);
			return false;
		}
		return true;
	case ref::JValue::Bool:
		if (t != Var::BOOL || (bool)v != r.b) {
			why = std::string(r.b ? "true" : "false") + " decoded as " + show(v);
			return false;
		}
		return true;
	case ref::JValue::Num: {
		bool isnum = t == Var::INT || t == Var::NUMBER || t == Var::FLOAT;
		if (!isnum || !((double)v == r.num)) {
			char b[40];
			snprintf(b, sizeof b, "%.17g", r.num);
			why = std::string("number ") + b + " decoded as " + show(v);
			return false;
		}
		return true;
	}
	case ref::JValue::Str:
		if (t != Var::STRING || str_of(v) != r.str) {
			why = "string " + vf::show(r.str, 60) + " decoded as " + show(v);
			return false;
		}
		return true;
	case ref::JValue::Arr:
		if (t != Var::ARRAY || v.length() != (int)r.arr.size()) {
			why = "array of " + std::to_string(r.arr.size()) + " decoded as " + show(v);
			return false;
		}
		for (size_t i = 0; i < r.arr.size(); i++)
			if (!same_as_ref(r.arr[i], v[(int)i], why)) {
				why = "[" + std::to_string(i) + "] " + why;
				return false;
			}
		return true;
	case ref::JValue::Obj: {
		std::vector<std::string> names = r.names();
		if (t != Var::OBJ || v.length() != (int)names.size()) {
			why = "object of " + std::to_string(names.size()) + " members decoded as " + show(v);
			return false;
		}
		for (auto& k : names) {
			asl::String key(k.c_str());
			if (!v.has(key)) {
				why = "member " + vf::show(k) + " missing";
				return false;
			}
			if (!same_as_ref(*r.get(k), v[key], why)) {
				why = "." + vf::show(k) + " " + why;
				return false;
			}
		}
		return true;
	}
	}
	return false;
}

} // namespace c06
