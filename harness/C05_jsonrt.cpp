// C05 -- JSON and XDL encoding round-trips every Var exactly.
//
// A case is a model tree (plain STL) written as ops in preorder; the asl Var is built from the model, encoded, decoded
// and the decoded Var is compared with the MODEL by a walker that only uses Var's accessors.  For UTF-8 trees the JSON
// text is also parsed by the independent strict RFC 8259 parser (ref_json.h) and that value is compared with the model.
//
//   tree ops:  null | bool b | int v | dbl <bits> | flt <bits> | str how "|" value | arr n | obj n     (n = number of children)
//              inside an object every child carries its key as an extra (last) string
//              gen seed nodes depth flags          a deterministic pseudo-random tree (bulk documents; flags 1=UTF-8 only, 2=identifier keys)
//   first op (optional):
//              file fmt mode padkind pos           one round trip through a file (fmt 0 Json, 1 Xdl; mode 0..3 = NONE/PRETTY/SIMPLE/NICE,
//                                                  4 = the function's default argument; padkind 0 none, 1 pad string inside a wrapping
//                                                  array through the real writer, 2 leading spaces, 3 BOM + leading spaces; the padding is
//                                                  sized so that the reader's 16382-byte chunk edge falls before byte (pos mod (len+1)) of the body
//              sweep fmt mode padkind step         the same for EVERY position of the body (step 1) -- the sliding-prefix sweep
//              target kind len fmt mode     Json::write/Xdl::write to a special TARGET PATH, then read: kind 0 a file name of exactly
//                                                  len bytes (1..255 = NAME_MAX) in a short directory; 1 a symbolic link to an existing
//                                                  file; 2 a symbolic link to a file that does not exist yet; 3 one of two hard links;
//                                                  4 an existing longer file that is overwritten.  write() returns true and reading
//                                                  through the same path AND (links) through the other path gives the written tree
//   hostile kind pos  (optional, very first op): before EVERY decode/read of the case's round trips, the static Json::decode /
//                     Xdl::decode is called on the same thread with a malformed text derived from the text about to be
//                     decoded (kind 0 a prefix, 1 a prefix cut inside a \uXXXX escape, 2 a lone high-surrogate escape, 3 cut
//                     inside a string, 4 inside a number, 5 inside a comment, 6 unbalanced brackets, 7 bad tokens); its
//                     result is ignored (that is C06) -- the round trip is judged exactly as without it: its outcome must
//                     not depend on what was decoded before
//   without a first op: in-memory round trip in all modes (Json x 4, and Xdl x 4 when all keys are identifiers)
#include "common/vfrc.h"
#include "common/ref_json.h"
#include "common/ref_codec.h"
#include <asl/Var.h>
#include <asl/JSON.h>
#include <asl/Xdl.h>
#include <cmath>
#include <cfloat>
#include <climits>
#include <algorithm>

using namespace asl;

const char* vf_harness_name() { return "C05_jsonrt"; }

static const int CHUNK = 16382; // Xdl::read's chunk size (src/Xdl.cpp: Array<char> buffer(min(16382, size) + 1))

// ------------------------------------------------------------------------------------------------ model

struct MV {
	enum K { Null, Bool, Int, Dbl, Flt, Str, Arr, Obj };
	K k = Null;
	bool b = false;
	int i = 0;
	double d = 0;
	float f = 0;
	int how = 0;
	std::string s;
	std::vector<MV> kids;
	std::vector<std::string> keys; // Obj: keys[i] names kids[i]; unique
};

static double bits2d(long long b)
{
	double d;
	memcpy(&d, &b, 8);
	return d;
}
static long long d2bits(double d)
{
	long long b;
	memcpy(&b, &d, 8);
	return b;
}
static float bits2f(long long b)
{
	uint32_t u = (uint32_t)b;
	float f;
	memcpy(&f, &u, 4);
	return f;
}
static long long f2bits(float f)
{
	uint32_t u;
	memcpy(&u, &f, 4);
	return (long long)u;
}
static std::string nonul(std::string s)
{
	for (auto& c : s)
		if (c == 0)
			c = '0';
	return s;
}

static bool is_ident(const std::string& k)
{
	if (k.empty())
		return false;
	for (size_t i = 0; i < k.size(); i++) {
		unsigned char c = k[i];
		bool al = (c >= 'A' && c <= 'Z') || (c >= 'a' && c <= 'z') || c == '_';
		bool dg = c >= '0' && c <= '9';
		if (!(al || (i > 0 && dg)))
			return false;
	}
	return true;
}

// deterministic bulk tree (content is a pure function of the op's integers)
static MV gen_bulk(ref::SplitMix& r, int& budget, int depth, int maxdepth, int flags)
{
	MV m;
	budget--;
	int k = (int)r.below(depth >= maxdepth || budget <= 0 ? 7 : 10);
	auto str = [&](int maxlen, bool key) {
		std::string s;
		int n = (int)r.below((uint64_t)maxlen + 1);
		if (key && (flags & 2)) {
			static const char* a1 = "abcXYZ_";
			static const char* a2 = "abcXYZ_019";
			s += a1[r.below(7)];
			for (int i = 0; i < n; i++)
				s += a2[r.below(10)];
			return s;
		}
		for (int i = 0; i < n; i++) {
			int c = (int)r.below(16);
			if (c < 9)
				s += (char)(0x20 + r.below(0x5f));
			else if (c == 9)
				s += (char)(1 + r.below(0x1f));
			else if (c == 10)
				s += "\"\\/\x7f"[r.below(4)];
			else if (c == 11)
				s += "\xc3\xa9";
			else if (c == 12)
				s += "\xe2\x82\xac";
			else if (c == 13)
				s += "\xf0\x9f\x98\x80";
			else if (c == 14 && !(flags & 1))
				s += (char)(0x80 + r.below(0x80));
			else
				s += 'z';
		}
		return s;
	};
	switch (k) {
	case 0: m.k = MV::Null; break;
	case 1:
		m.k = MV::Bool;
		m.b = r.below(2) != 0;
		break;
	case 2:
		m.k = MV::Int;
		m.i = (int)(uint32_t)r.next() >> (int)r.below(32);
		break;
	case 3:
	case 4: {
		m.k = MV::Dbl;
		double d = bits2d((long long)r.next());
		if (!std::isfinite(d))
			d = (double)(long long)r.next() / 1024.0;
		m.d = r.below(4) == 0 ? std::ldexp((double)(r.next() >> 11), (int)r.below(80) - 60) : d;
		break;
	}
	case 5: {
		m.k = MV::Flt;
		float f = bits2f((long long)(r.next() & 0xffffffffu));
		m.f = std::isfinite(f) ? f : 1.25f;
		break;
	}
	case 6:
		m.k = MV::Str;
		m.how = (int)r.below(2);
		m.s = str(r.below(8) == 0 ? 200 : 24, false);
		break;
	case 7:
	case 8: {
		m.k = MV::Arr;
		int n = (int)r.below(r.below(4) == 0 ? 40 : 8);
		for (int i = 0; i < n && budget > 0; i++)
			m.kids.push_back(gen_bulk(r, budget, depth + 1, maxdepth, flags));
		break;
	}
	default: {
		m.k = MV::Obj;
		int n = (int)r.below(8);
		for (int i = 0; i < n && budget > 0; i++) {
			std::string key = str(10, true);
			bool dup = false;
			for (auto& x : m.keys)
				if (x == key)
					dup = true;
			if (dup)
				continue;
			m.keys.push_back(key);
			m.kids.push_back(gen_bulk(r, budget, depth + 1, maxdepth, flags));
		}
	}
	}
	return m;
}

// tolerant preorder reader: any op list denotes some tree
static MV read_tree(const std::vector<vf::Op>& ops, size_t& pos, bool in_obj, std::string* key, int depth = 0)
{
	MV m;
	if (pos >= ops.size())
		return m;
	const vf::Op& o = ops[pos++];
	size_t nk = 0; // strings consumed by the node itself
	if (o.name == "bool") {
		m.k = MV::Bool;
		m.b = o.i(0) != 0;
	}
	else if (o.name == "int") {
		m.k = MV::Int;
		long long v = o.i(0);
		m.i = v < INT_MIN ? INT_MIN : v > INT_MAX ? INT_MAX : (int)v;
	}
	else if (o.name == "dbl") {
		m.k = MV::Dbl;
		m.d = bits2d(o.i(0));
		if (!std::isfinite(m.d))
			m.d = 0; // outside the property's domain (finite doubles)
	}
	else if (o.name == "flt") {
		m.k = MV::Flt;
		m.f = bits2f(o.i(0));
		if (!std::isfinite(m.f))
			m.f = 0;
	}
	else if (o.name == "str") {
		m.k = MV::Str;
		m.how = (int)(o.i(0) & 1);
		m.s = nonul(o.str(0));
		nk = 1;
	}
	else if (o.name == "gen") {
		ref::SplitMix r((uint64_t)o.i(0));
		long long nodes = o.i(1, 100);
		int budget = (int)(nodes < 1 ? 1 : nodes > 2000000 ? 2000000 : nodes);
		long long md = o.i(2, 6);
		m = gen_bulk(r, budget, 0, (int)(md < 0 ? 0 : md > 40 ? 40 : md), (int)o.i(3));
		if (m.k != MV::Arr && m.k != MV::Obj && nodes > 1) { // bulk documents are containers
			MV a;
			a.k = MV::Arr;
			a.kids.push_back(m);
			while (budget > 0)
				a.kids.push_back(gen_bulk(r, budget, 1, (int)(md < 1 ? 1 : md > 40 ? 40 : md), (int)o.i(3)));
			m = a;
		}
	}
	else if (o.name == "arr" || o.name == "obj") {
		m.k = o.name == "arr" ? MV::Arr : MV::Obj;
		long long n = o.i(0);
		if (in_obj && key)
			*key = nonul(o.str(0));
		for (long long j = 0; j < n && pos < ops.size() && depth < 200; j++) {
			std::string ck;
			MV c = read_tree(ops, pos, m.k == MV::Obj, &ck, depth + 1);
			if (m.k == MV::Obj) {
				size_t at = m.keys.size();
				for (size_t x = 0; x < m.keys.size(); x++)
					if (m.keys[x] == ck)
						at = x;
				if (at == m.keys.size()) {
					m.keys.push_back(ck);
					m.kids.push_back(c);
				}
				else
					m.kids[at] = c; // assigning an existing key replaces its value
			}
			else
				m.kids.push_back(c);
		}
		return m;
	}
	if (in_obj && key)
		*key = nonul(o.str(nk));
	return m;
}

static void write_tree(const MV& m, vf::Case& c, const std::string* key)
{
	vf::Op o;
	switch (m.k) {
	case MV::Null: o.name = "null"; break;
	case MV::Bool:
		o.name = "bool";
		o.a = {m.b ? 1 : 0};
		break;
	case MV::Int:
		o.name = "int";
		o.a = {m.i};
		break;
	case MV::Dbl:
		o.name = "dbl";
		o.a = {d2bits(m.d)};
		break;
	case MV::Flt:
		o.name = "flt";
		o.a = {f2bits(m.f)};
		break;
	case MV::Str:
		o.name = "str";
		o.a = {m.how};
		o.s = {m.s};
		break;
	case MV::Arr:
		o.name = "arr";
		o.a = {(long long)m.kids.size()};
		break;
	case MV::Obj:
		o.name = "obj";
		o.a = {(long long)m.kids.size()};
		break;
	}
	if (key)
		o.s.push_back(*key);
	c.ops.push_back(o);
	for (size_t i = 0; i < m.kids.size(); i++)
		write_tree(m.kids[i], c, m.k == MV::Obj ? &m.keys[i] : 0);
}

struct Traits {
	bool utf8 = true, idkeys = true;
	bool ctrl = false, quote = false, bslash = false, slash = false, slashkey = false, ctrlkey = false, del = false, multibyte = false;
	bool nonint_dbl = false, flt = false, denormal = false, big_int = false, int_dbl = false, negzero = false, extreme = false;
	bool has_obj = false, has_arr = false, emptykey = false, long_str = false, wide_arr = false;
	int depth = 0, nodes = 0;
};

static void scan_str(const std::string& s, bool key, Traits& t)
{
	if (!ref::utf8_valid(s))
		t.utf8 = false;
	for (unsigned char c : s) {
		if (c < 0x20) {
			(key ? t.ctrlkey : t.ctrl) = true;
			t.ctrl = true;
		}
		else if (c == '"')
			t.quote = true;
		else if (c == '\\')
			t.bslash = true;
		else if (c == '/') {
			t.slash = true;
			if (key)
				t.slashkey = true;
		}
		else if (c == 0x7f)
			t.del = true;
		else if (c >= 0x80)
			t.multibyte = true;
	}
}

static void scan(const MV& m, Traits& t, int depth)
{
	t.nodes++;
	if (depth > t.depth)
		t.depth = depth;
	switch (m.k) {
	case MV::Dbl:
		if (m.d != std::floor(m.d))
			t.nonint_dbl = true;
		else
			t.int_dbl = true;
		if (m.d != 0 && std::fabs(m.d) < DBL_MIN)
			t.denormal = true;
		if (m.d == 0 && std::signbit(m.d))
			t.negzero = true;
		if (std::fabs(m.d) == DBL_MAX || std::fabs(m.d) == DBL_MIN)
			t.extreme = true;
		break;
	case MV::Flt: t.flt = true; break;
	case MV::Int:
		if (m.i >= 100000000 || m.i <= -10000000)
			t.big_int = true;
		if (m.i == INT_MIN || m.i == INT_MAX)
			t.extreme = true;
		break;
	case MV::Str:
		scan_str(m.s, false, t);
		if (m.s.size() >= 8)
			t.long_str = true;
		break;
	case MV::Arr:
		t.has_arr = true;
		if (m.kids.size() > 10)
			t.wide_arr = true;
		break;
	case MV::Obj:
		t.has_obj = true;
		for (auto& k : m.keys) {
			scan_str(k, true, t);
			if (!is_ident(k))
				t.idkeys = false;
			if (k.empty())
				t.emptykey = true;
		}
		break;
	default: break;
	}
	for (auto& c : m.kids)
		scan(c, t, depth + 1);
}

static Var build(const MV& m)
{
	switch (m.k) {
	case MV::Null: return Var(Var::NUL);
	case MV::Bool: return Var(m.b);
	case MV::Int: return Var(m.i);
	case MV::Dbl: return Var(m.d);
	case MV::Flt: return Var(m.f);
	case MV::Str: return m.how ? Var(String(m.s.c_str())) : Var(m.s.c_str());
	case MV::Arr: {
		Var a(Var::ARRAY);
		for (auto& c : m.kids)
			a << build(c);
		return a;
	}
	case MV::Obj: {
		Var o(Var::OBJ);
		for (size_t i = 0; i < m.kids.size(); i++)
			o[String(m.keys[i].c_str())] = build(m.kids[i]);
		return o;
	}
	}
	return Var(Var::NUL);
}

// ------------------------------------------------------------------------------------------------ oracles

static const char* tname(Var::Type t)
{
	switch (t) {
	case Var::NONE: return "NONE";
	case Var::NUL: return "NUL";
	case Var::NUMBER: return "NUMBER";
	case Var::BOOL: return "BOOL";
	case Var::INT: return "INT";
	case Var::SSTRING: return "SSTRING";
	case Var::FLOAT: return "FLOAT";
	case Var::STRING: return "STRING";
	case Var::ARRAY: return "ARRAY";
	case Var::OBJ: return "OBJ";
	}
	return "?";
}

static std::string g17(double d)
{
	char b[40];
	snprintf(b, sizeof b, "%.17g", d);
	return b;
}

// simple modes write 15 (double) / 7 (float) significant digits: nothing more than that is claimed for them
static bool close_rel(double got, double want, double tol)
{
	if (got == want)
		return true;
	return std::fabs(got - want) <= tol * std::fabs(want);
}
// |x| so large that its 15-digit decimal rounds above DBL_MAX: SIMPLE mode cannot represent it, no claim
static bool simple_overflows(double x) { return std::fabs(x) > 1.79769313486231e308; }

static void check_number(const MV& m, bool isnum, double got, bool simple, const std::string& path, const char* who)
{
	VF_CHECK(isnum, who, ": ", path, " is not a number");
	if (m.k == MV::Int) {
		VF_CHECK(got == (double)m.i, who, ": ", path, " int ", m.i, " came back as ", g17(got));
	}
	else if (m.k == MV::Dbl) {
		if (!simple) {
			if (m.d != 0)
				VF_CHECK(memcmp(&got, &m.d, 8) == 0, who, ": ", path, " double ", g17(m.d), " (bits ", d2bits(m.d), ") came back as ", g17(got), " (bits ", d2bits(got), ")");
			else
				VF_CHECK(got == 0, who, ": ", path, " zero came back as ", g17(got));
		}
		else if (!simple_overflows(m.d))
			VF_CHECK(close_rel(got, m.d, 1e-14), who, ": ", path, " double ", g17(m.d), " came back as ", g17(got), " in a 15-digit mode");
	}
	else {
		if (!simple) {
			float fg = (float)got;
			if (m.f != 0)
				VF_CHECK(memcmp(&fg, &m.f, 4) == 0, who, ": ", path, " float ", g17(m.f), " came back as ", g17(got), " -> (float) ", g17(fg));
			else
				VF_CHECK(fg == 0, who, ": ", path, " float zero came back as ", g17(got));
		}
		else
			VF_CHECK(close_rel(got, (double)m.f, 1e-6), who, ": ", path, " float ", g17(m.f), " came back as ", g17(got), " in a 7-digit mode");
	}
}

// independent walker over the decoded Var's accessors against the model
static void check_var(const MV& m, const Var& v, bool simple, const std::string& path)
{
	Var::Type t = v.type();
	switch (m.k) {
	case MV::Null: VF_CHECK(t == Var::NUL, "asl: ", path, " null came back as ", tname(t)); break;
	case MV::Bool:
		VF_CHECK(t == Var::BOOL, "asl: ", path, " bool came back as ", tname(t));
		VF_CHECK((bool)v == m.b, "asl: ", path, " bool ", m.b, " came back inverted");
		break;
	case MV::Int:
	case MV::Dbl:
	case MV::Flt: {
		bool isnum = t == Var::INT || t == Var::NUMBER || t == Var::FLOAT;
		check_number(m, isnum, isnum ? (double)v : 0.0, simple, path, "asl");
		break;
	}
	case MV::Str: {
		VF_CHECK(t == Var::STRING, "asl: ", path, " string came back as ", tname(t));
		const char* p = *v;
		std::string got(p, strlen(p));
		VF_CHECK(got == m.s, "asl: ", path, " string ", vf::show(m.s), " came back as ", vf::show(got));
		VF_CHECK(v.length() == (int)m.s.size(), "asl: ", path, " string length() ", v.length(), " want ", m.s.size());
		break;
	}
	case MV::Arr:
		VF_CHECK(t == Var::ARRAY, "asl: ", path, " array came back as ", tname(t));
		VF_CHECK(v.length() == (int)m.kids.size(), "asl: ", path, " array of ", m.kids.size(), " came back with ", v.length(), " elements");
		for (size_t i = 0; i < m.kids.size(); i++)
			check_var(m.kids[i], v[(int)i], simple, path + "[" + std::to_string(i) + "]");
		break;
	case MV::Obj:
		VF_CHECK(t == Var::OBJ, "asl: ", path, " object came back as ", tname(t));
		VF_CHECK(v.length() == (int)m.kids.size(), "asl: ", path, " object of ", m.kids.size(), " properties came back with ", v.length());
		for (size_t i = 0; i < m.kids.size(); i++) {
			String k(m.keys[i].c_str());
			VF_CHECK(v.has(k), "asl: ", path, " lost key ", vf::show(m.keys[i]));
			check_var(m.kids[i], v[k], simple, path + "." + vf::show(m.keys[i]));
		}
		break;
	}
}

// the value the independent parser read from the encoder's text against the model
static void check_ref(const MV& m, const ref::JValue& v, bool simple, const std::string& path)
{
	switch (m.k) {
	case MV::Null: VF_CHECK(v.kind == ref::JValue::Null, "ref: ", path, " null denotes kind ", (int)v.kind); break;
	case MV::Bool: VF_CHECK(v.kind == ref::JValue::Bool && v.b == m.b, "ref: ", path, " bool ", m.b, " denotes something else"); break;
	case MV::Int:
	case MV::Dbl:
	case MV::Flt: check_number(m, v.kind == ref::JValue::Num, v.num, simple, path, "ref"); break;
	case MV::Str:
		VF_CHECK(v.kind == ref::JValue::Str, "ref: ", path, " string denotes kind ", (int)v.kind);
		VF_CHECK(v.str == m.s, "ref: ", path, " string ", vf::show(m.s), " denotes ", vf::show(v.str));
		break;
	case MV::Arr:
		VF_CHECK(v.kind == ref::JValue::Arr, "ref: ", path, " array denotes kind ", (int)v.kind);
		VF_CHECK(v.arr.size() == m.kids.size(), "ref: ", path, " array of ", m.kids.size(), " denotes ", v.arr.size(), " elements");
		for (size_t i = 0; i < m.kids.size(); i++)
			check_ref(m.kids[i], v.arr[i], simple, path + "[" + std::to_string(i) + "]");
		break;
	case MV::Obj:
		VF_CHECK(v.kind == ref::JValue::Obj, "ref: ", path, " object denotes kind ", (int)v.kind);
		VF_CHECK(v.names().size() == m.kids.size(), "ref: ", path, " object of ", m.kids.size(), " denotes ", v.names().size(), " members");
		for (size_t i = 0; i < m.kids.size(); i++) {
			const ref::JValue* c = v.get(m.keys[i]);
			VF_CHECK(c != 0, "ref: ", path, " lost key ", vf::show(m.keys[i]));
			check_ref(m.kids[i], *c, simple, path + "." + vf::show(m.keys[i]));
		}
		break;
	}
}

static const char* MODE_NAME[] = {"NONE", "PRETTY", "SIMPLE", "NICE", "default"};

static std::string encode(const Var& v, int fmt, int mode)
{
	String e = fmt == 0 ? Json::encode(v, Json::Mode(mode)) : Xdl::encode(v, mode);
	VF_CHECK((int)strlen(*e) == e.length(), "encoder result: length() ", e.length(), " but strlen ", strlen(*e));
	return std::string(*e, (size_t)e.length());
}

// ---- hostile decodes interleaved with the round trips (state must not leak from one decode() call into the next)

struct Hostile {
	bool on = false;
	int kind = 0;
	long pos = 0;
	long calls = 0;
};
static Hostile g_hostile;

static std::string hostile_text(const std::string& enc, int kind, long pos)
{
	size_t len = enc.size();
	switch (kind) {
	case 0: return enc.substr(0, (size_t)pos % (len + 1));
	case 1: { // the text cut off inside a \uXXXX escape (after \u, \u0, \u00 or \u000)
		std::vector<size_t> at;
		for (size_t i = 0; i + 1 < len; i++)
			if (enc[i] == '\\' && enc[i + 1] == 'u')
				at.push_back(i);
		if (at.empty())
			return std::string("[\"ab\\u") + std::string("00a7").substr(0, (size_t)pos % 4);
		size_t i = at[(size_t)(pos / 4) % at.size()];
		size_t cut = i + 2 + (size_t)pos % 4;
		return enc.substr(0, cut < len ? cut : len);
	}
	case 2: { // a first surrogate that never gets its second half
		static const char* v[] = {"\"\\ud83d\"", "[\"\\udbff\"]", "\"\\ud83dabc\"", "{\"\\ud800\":1}", "[\"x\",\"\\uD83D", "\"\\ud83d\\n\""};
		return v[(size_t)pos % 6];
	}
	case 3: { // cut inside a string
		size_t q = enc.find('"');
		if (q == std::string::npos)
			return "[\"abc";
		size_t cut = q + 1 + (size_t)pos % 3;
		return enc.substr(0, cut < len ? cut : len);
	}
	case 4: {
		static const char* v[] = {"[-12.5e", "-", "[1.", "1e+", "{\"a\":-", "[0.5E-"};
		return v[(size_t)pos % 6];
	}
	case 5: {
		static const char* v[] = {"[1, /* open", "{a=1 // x", "/", "[1,2] /*", "{a=[1,2] /* * ", "[Y,N //"};
		return v[(size_t)pos % 6];
	}
	case 6: {
		static const char* v[] = {"[[{", "]", "{\"a\":[1,2}", "[1,2]]", "{{", "A{b=[1,{c=2}"};
		return v[(size_t)pos % 6];
	}
	default: {
		static const char* v[] = {"tru", "[nul]", "\"\\q\"", "{\"a\" 1}", "[1,,2]", "\"\\u12\""};
		return v[(size_t)pos % 6];
	}
	}
}

// called right before a decode/read of text `enc`; nothing is asserted about the hostile decode itself
static void hostile_decode(const std::string& enc)
{
	if (!g_hostile.on)
		return;
	std::string h = nonul(hostile_text(enc, g_hostile.kind, g_hostile.pos + g_hostile.calls));
	Var v = ((g_hostile.pos >> 4) + g_hostile.calls) & 1 ? Xdl::decode(String(h.c_str())) : Json::decode(String(h.c_str()));
	(void)v.ok();
	g_hostile.calls++;
}

static void mem_roundtrip(const MV& m, const Traits& t)
{
	Var v = build(m);
	check_var(m, v, false, "built"); // the Var under test really is the model (guards the harness itself)
	for (int fmt = 0; fmt < 2; fmt++) {
		if (fmt == 1 && !t.idkeys)
			continue;
		for (int mode = 0; mode < 4; mode++) {
			bool simple = (mode & 2) != 0;
			std::string text = encode(v, fmt, mode);
			std::string tag = std::string(fmt ? "Xdl/" : "Json/") + MODE_NAME[mode];
			hostile_decode(text);
			Var back = fmt == 0 ? Json::decode(String(text.c_str())) : Xdl::decode(String(text.c_str()));
			VF_CHECK(back.ok(), tag, ": decoder rejects the encoder's own output ", vf::show(text, 300));
			try {
				check_var(m, back, simple, "$");
			}
			catch (vf::Failure& f) {
				f.msg += " [" + tag + " text " + vf::show(text, 300) + "]";
				throw;
			}
			if (fmt == 0 && t.utf8) {
				ref::JValue jv;
				ref::JsonInfo info;
				bool ok = ref::json_parse(text, jv, &info, 5000);
				VF_CHECK(ok, tag, ": strict RFC 8259 parser rejects the encoder output at byte ", info.error_pos, " (", info.error, "): ", vf::show(text, 300));
				try {
					check_ref(m, jv, simple, "$");
				}
				catch (vf::Failure& f) {
					f.msg += " [" + tag + " text " + vf::show(text, 300) + "]";
					throw;
				}
			}
		}
	}
}

// ------------------------------------------------------------------------------------------------ files

static std::string& tmpdir()
{
	static std::string* d = 0;
	if (!d) {
		// <build>/tmp/<pid>/ next to <build>/bin/<this binary>
		char exe[4096];
		ssize_t n = readlink("/proc/self/exe", exe, sizeof exe - 1);
		std::string base = "build";
		if (n > 0) {
			exe[n] = 0;
			std::string e = exe;
			size_t a = e.rfind('/');
			size_t b = a == std::string::npos ? a : e.rfind('/', a - 1);
			if (b != std::string::npos && e.substr(b, a - b) == "/bin")
				base = e.substr(0, b);
		}
		mkdir(base.c_str(), 0755);
		mkdir((base + "/tmp").c_str(), 0755);
		d = new std::string(base + "/tmp/" + std::to_string(getpid()));
		mkdir(d->c_str(), 0755);
		atexit([]() {
			unlink((tmpdir() + "/doc").c_str());
			rmdir((tmpdir() + "/t").c_str());
			rmdir(tmpdir().c_str());
		});
	}
	return *d;
}

static void raw_write(const std::string& path, const std::string& data)
{
	int fd = open(path.c_str(), O_CREAT | O_WRONLY | O_TRUNC, 0644);
	VF_CHECK(fd >= 0, "harness: cannot create ", path);
	size_t off = 0;
	while (off < data.size()) {
		ssize_t w = write(fd, data.data() + off, data.size() - off);
		if (w <= 0)
			break;
		off += (size_t)w;
	}
	close(fd);
	VF_CHECK(off == data.size(), "harness: short write to ", path);
}

struct FileStats {
	long files = 0, straddle = 0, multi_chunk = 0, tiny = 0, flushes = 0;
};

// one round trip through a file; edge = offset inside the body (compact text) that the reader's chunk boundary should precede, or -1
static void file_roundtrip(const MV& m, const Var& v, int fmt, int mode, int padkind, long edge, FileStats& fs)
{
	std::string path = tmpdir() + "/doc";
	String file(path.c_str());
	int emode = mode == 4 ? (fmt == 0 ? 1 : 3) : mode; // documented defaults: Json::write PRETTY, Xdl::write NICE
	bool simple = (emode & 2) != 0;
	std::string tag = std::string(fmt ? "Xdl::write/read " : "Json::write/read ") + MODE_NAME[mode] + " padkind " + std::to_string(padkind);
	Var back;
	size_t size = 0;
	if (padkind == 1) {
		long pad = edge < 0 ? 0 : ((CHUNK - 4 - edge) % CHUNK + CHUNK) % CHUNK; // ["<pad>",<body>]
		std::string ps((size_t)pad, 'a');
		Var w(Var::ARRAY);
		w << Var(String(ps.c_str())) << v;
		bool ok = mode == 4 ? (fmt == 0 ? Json::write(w, file) : Xdl::write(w, file)) : (fmt == 0 ? Json::write(w, file, Json::Mode(mode)) : Xdl::write(w, file, mode));
		VF_CHECK(ok, tag, ": write failed");
		hostile_decode("[\"pad\\u0007\"]");
		Var r = fmt == 0 ? Json::read(file) : Xdl::read(file);
		struct stat st;
		size = stat(path.c_str(), &st) == 0 ? (size_t)st.st_size : 0;
		unlink(path.c_str());
		VF_CHECK(r.ok(), tag, ": read rejects the written file (", size, " bytes, pad ", pad, ")");
		VF_CHECK(r.type() == Var::ARRAY && r.length() == 2, tag, ": wrapper array came back as ", tname(r.type()), " of ", r.length());
		const Var& r0 = ((const Var&)r)[0];
		VF_CHECK(r0.type() == Var::STRING && ps == *r0, tag, ": pad string of ", pad, " bytes came back changed (length ", r0.length(), ")");
		back = ((const Var&)r)[1];
		if (size > 16000)
			fs.flushes++;
	}
	else if (padkind == 2 || padkind == 3) {
		std::string body = encode(v, fmt, emode);
		long pad = edge < 0 ? 0 : ((CHUNK - edge) % CHUNK + CHUNK) % CHUNK;
		std::string data = (padkind == 3 ? "\xef\xbb\xbf" : "") + std::string((size_t)pad, ' ') + body;
		raw_write(path, data);
		size = data.size();
		hostile_decode("[\"pad\\u0007\"]");
		back = fmt == 0 ? Json::read(file) : Xdl::read(file);
		unlink(path.c_str());
		VF_CHECK(back.ok(), tag, ": read rejects a file of ", size, " bytes = ", pad, " spaces + ", vf::show(body, 200));
	}
	else {
		bool ok = mode == 4 ? (fmt == 0 ? Json::write(v, file) : Xdl::write(v, file)) : (fmt == 0 ? Json::write(v, file, Json::Mode(mode)) : Xdl::write(v, file, mode));
		VF_CHECK(ok, tag, ": write failed");
		struct stat st;
		size = stat(path.c_str(), &st) == 0 ? (size_t)st.st_size : 0;
		hostile_decode("[\"pad\\u0007\"]");
		back = fmt == 0 ? Json::read(file) : Xdl::read(file);
		unlink(path.c_str());
		VF_CHECK(back.ok(), tag, ": read rejects the written file of ", size, " bytes (text ", vf::show(encode(v, fmt, emode), 100), ")");
		if (size > 16000)
			fs.flushes++;
	}
	fs.files++;
	if (size > (size_t)CHUNK)
		fs.multi_chunk++;
	if (size <= 3)
		fs.tiny++;
	if (edge >= 0)
		fs.straddle++;
	try {
		check_var(m, back, simple, "$");
	}
	catch (vf::Failure& f) {
		f.msg += " [" + tag + ", file of " + std::to_string(size) + " bytes, edge " + std::to_string(edge) + "]";
		throw;
	}
}

// write to a special target path, read back through every path that names the file
static void target_roundtrip(const MV& m, const Var& v, int kind, long len, int fmt, int mode)
{
	std::string dir = tmpdir() + "/t";
	mkdir(dir.c_str(), 0755);
	int emode = mode == 4 ? (fmt == 0 ? 1 : 3) : mode;
	bool simple = (emode & 2) != 0;
	static const char* KIND[] = {"file name of given length", "symlink to an existing file", "symlink to a missing file", "one of two hard links", "overwrite of a longer file"};
	std::string path, other, tag = std::string(fmt ? "Xdl::write/read " : "Json::write/read ") + MODE_NAME[mode] + ", target: " + KIND[kind];
	std::string old = "[\"old content, longer than most of the documents that replace it ........................................\", 1, 2, 3, 4, 5, 6, 7, 8, 9, 10]\n";
	std::vector<std::string> cleanup;
	switch (kind) {
	case 0:
		if (len < 1)
			len = 1;
		if (len > 255)
			len = 255;
		path = dir + "/" + std::string((size_t)len, 'n');
		tag += " (" + std::to_string(len) + " bytes)";
		break;
	case 1:
		other = dir + "/real";
		path = dir + "/link";
		raw_write(other, old);
		VF_CHECK(symlink("real", path.c_str()) == 0, "harness: symlink failed");
		break;
	case 2:
		other = dir + "/real";
		path = dir + "/link";
		unlink(other.c_str());
		VF_CHECK(symlink("real", path.c_str()) == 0, "harness: symlink failed");
		break;
	case 3:
		other = dir + "/first";
		path = dir + "/second";
		raw_write(other, old);
		VF_CHECK(link(other.c_str(), path.c_str()) == 0, "harness: link failed");
		break;
	default:
		path = dir + "/doc";
		raw_write(path, old);
	}
	cleanup.push_back(path);
	if (!other.empty())
		cleanup.push_back(other);
	cleanup.push_back(path + ".tmp");
	struct Rm {
		std::vector<std::string>& f;
		~Rm()
		{
			for (auto& x : f)
				unlink(x.c_str());
		}
	} rm{cleanup};
	String file(path.c_str());
	bool ok = mode == 4 ? (fmt == 0 ? Json::write(v, file) : Xdl::write(v, file)) : (fmt == 0 ? Json::write(v, file, Json::Mode(mode)) : Xdl::write(v, file, mode));
	VF_CHECK(ok, tag, ": write returned false");
	for (int which = 0; which < (other.empty() ? 1 : 2); which++) {
		const std::string& rp = which == 0 ? path : other;
		hostile_decode("[\"pad\\u0007\"]");
		Var back = fmt == 0 ? Json::read(String(rp.c_str())) : Xdl::read(String(rp.c_str()));
		const char* via = which == 0 ? "the path written to" : "the other path of the same file";
		VF_CHECK(back.ok(), tag, ": read through ", via, " gives an invalid Var");
		try {
			check_var(m, back, simple, "$");
		}
		catch (vf::Failure& f) {
			std::string now;
			f.msg += " [" + tag + ", read through " + via + "]";
			throw;
		}
	}
	vf::stats().cls(std::string("target.") + (kind == 0 ? (len >= 250 ? "name_250..255_bytes" : "name_1..249_bytes") : KIND[kind]));
}

void vf_run_case(const std::string& part, const vf::Case& c)
{
	(void)part;
	size_t pos = 0;
	const vf::Op* head = 0;
	g_hostile = Hostile();
	if (!c.ops.empty() && c.ops[0].name == "hostile") {
		g_hostile.on = true;
		g_hostile.kind = (int)(((c.ops[0].i(0) % 8) + 8) % 8);
		g_hostile.pos = c.ops[0].i(1) < 0 ? -(c.ops[0].i(1) + 1) : c.ops[0].i(1);
		pos = 1;
	}
	if (pos < c.ops.size() && (c.ops[pos].name == "file" || c.ops[pos].name == "sweep" || c.ops[pos].name == "target")) {
		head = &c.ops[pos];
		pos++;
	}
	MV m = read_tree(c.ops, pos, false, 0);
	Traits t;
	scan(m, t, 1);
	if (head && head->name == "target") {
		int fmt = (int)(head->i(2) & 1);
		if (fmt == 1 && !t.idkeys)
			fmt = 0;
		Var v = build(m);
		target_roundtrip(m, v, (int)(((head->i(0) % 5) + 5) % 5), head->i(1), fmt, (int)(((head->i(3) % 5) + 5) % 5));
		return;
	}
	if (!head) {
		mem_roundtrip(m, t);
		vf::stats().cls("hostile.decodes_before_a_round_trip_decode", (uint64_t)g_hostile.calls);
		return;
	}
	int fmt = (int)(head->i(0) & 1);
	if (fmt == 1 && !t.idkeys)
		fmt = 0; // Xdl is only claimed for identifier keys
	int mode = (int)(((head->i(1) % 5) + 5) % 5);
	int padkind = (int)(((head->i(2) % 4) + 4) % 4);
	Var v = build(m);
	FileStats fs;
	int emode = mode == 4 ? (fmt == 0 ? 1 : 3) : mode;
	long L = (long)encode(v, fmt, padkind == 1 ? 0 : emode).size();
	if (head->name == "file") {
		long p = head->i(3);
		long edge = padkind == 0 ? -1 : (p % (L + 1) + (L + 1)) % (L + 1);
		file_roundtrip(m, v, fmt, mode, padkind, edge, fs);
	}
	else {
		if (padkind == 0)
			padkind = 2;
		long step = head->i(3);
		if (step < 1)
			step = 1;
		long lo = padkind == 1 ? -10 : 0, hi = padkind == 1 ? L + 10 : L;
		for (long p = lo; p <= hi; p += step)
			file_roundtrip(m, v, fmt, mode, padkind, p, fs);
	}
	vf::stats().cls("hostile.decodes_before_a_file_read", (uint64_t)g_hostile.calls);
	vf::stats().cls("files.written_and_read", (uint64_t)fs.files);
	vf::stats().cls("files.chunk_edge_inside_or_next_to_body", (uint64_t)fs.straddle);
	vf::stats().cls("files.longer_than_one_chunk", (uint64_t)fs.multi_chunk);
	vf::stats().cls("files.1_to_3_bytes", (uint64_t)fs.tiny);
	vf::stats().cls("files.writer_flushed_midway(>16000)", (uint64_t)fs.flushes);
}

// ------------------------------------------------------------------------------------------------ generators

namespace {

using namespace rc;

// full-range integers at every rapidcheck size (arbitrary<T> alone grows with the size parameter); still shrink towards 0
inline Gen<uint32_t> U32() { return gen::resize(100, gen::arbitrary<uint32_t>()); }
inline Gen<uint64_t> U64() { return gen::resize(100, gen::arbitrary<uint64_t>()); }
inline Gen<int> I32() { return gen::resize(100, gen::arbitrary<int>()); }

// multi-byte UTF-8 sequences at the encoding-length boundaries, and a BOM
const std::vector<std::string> MB = {"\xc3\xa9", "\xc2\x80", "\xdf\xbf", "\xe2\x82\xac", "\xe0\xa0\x80", "\xef\xbf\xbf", "\xed\x9f\xbf", "\xee\x80\x80",
                                     "\xf0\x9f\x98\x80", "\xf0\x90\x80\x80", "\xf4\x8f\xbf\xbf", "\xef\xbb\xbf"};

const std::vector<std::string> SPECIAL_STR = {"", "true", "null", "Y", "N", "1e5", "-0", "//", "/*", "*/", "/* x */", "\\u0041", "\\", "\\\\\"", "a/b", "</script>",
                                              "\x08", "\x0c", "\x0b", "\x1f", "\x7f", "\x01", "$type", "\"", "\\\"", "a\"b", "\\n", "\n", "\r\n", "\t", "{", "[1,2]", "a=b", "a:b",
                                              "1234567", "12345678", "\x1b[0m"};
const std::vector<std::string> SPECIAL_KEY = {"", "a/b", "/", "//", "/*x*/", "k\"q", "k\\", "\x01", "\n", "$type", " ", "a b", "a=b", "a:b", "1", "-", "\x7f", "\xc3\xa9", "\x08", "}"};
const std::vector<std::string> SPECIAL_ID = {"Y", "N", "true", "false", "null", "_", "e", "E5", "x1", "inf", "a", "A_1", "_0"};

std::string pick_string(bool utf8, int maxlen)
{
	int kind = *vf::irange<int>(0, 9);
	if (kind == 0)
		return *gen::elementOf(SPECIAL_STR);
	auto tok = gen::weightedOneOf<int>({{6, gen::elementOf(std::vector<int>{'a', 'b', 'z', ' ', 'A', 'Z', '0', '9', '_', '-', '.', ',', ':', ';', '=', '+', '*', '#', '$', '%', '&', '\'', '(', ')', '<', '>', '?',
	                                                                          '@', '[', ']', '^', '`', '{', '|', '}', '~', '!', 'e', 'u', 'n'})},
	                                    {3, vf::irange<int>(1, 0x1f)},
	                                    {3, gen::elementOf(std::vector<int>{'"', '\\', '/', 0x7f})},
	                                    {2, vf::irange<int>(256, 256 + (int)MB.size() - 1)},
	                                    {utf8 ? 0 : 3, vf::irange<int>(0x80, 0xff)}});
	std::vector<int> v;
	if (kind <= 3) // lengths at the Var inline/heap boundary (7/8) and the String boundaries (15/16)
		v = *gen::container<std::vector<int>>((size_t)*gen::elementOf(std::vector<int>{6, 7, 8, 9, 14, 15, 16, 17}), tok);
	else // any length up to maxlen; shrinks by dropping elements
		v = *gen::resize(kind == 9 ? maxlen : (maxlen < 12 ? maxlen : 12), gen::container<std::vector<int>>(tok));
	std::string s;
	for (int x : v) {
		if (x >= 256)
			s += MB[(size_t)(x - 256) % MB.size()];
		else
			s += (char)x;
	}
	return s;
}

std::string pick_key(bool utf8, bool idkeys)
{
	if (idkeys) {
		if (*vf::irange<int>(0, 3) == 0)
			return *gen::elementOf(SPECIAL_ID);
		static const std::string a1 = "abcdefghijklmnopqrstuvwxyzABCDEFGHIJKLMNOPQRSTUVWXYZ_";
		static const std::string a2 = a1 + "0123456789";
		int n = *vf::irange<int>(0, 11);
		std::string s(1, *gen::elementOf(a1));
		for (char ch : *gen::container<std::string>((size_t)n, gen::elementOf(a2)))
			s += ch;
		return s;
	}
	if (*vf::irange<int>(0, 4) == 0)
		return *gen::elementOf(SPECIAL_KEY);
	return pick_string(utf8, 12);
}

int pick_int()
{
	int k = *vf::irange<int>(0, 9);
	if (k < 3)
		return *gen::elementOf(std::vector<int>{0, 1, -1, INT_MIN, INT_MAX, INT_MIN + 1, 999999999, 1000000000, -99999999, -100000000, 99999999, 100000000, -999999999,
		                                        -1000000000, 2147483646, 10, -10, 123456789});
	if (k < 6)
		return *vf::irange<int>(-1000, 1000);
	return *I32();
}

double pick_double()
{
	int k = *vf::irange<int>(0, 11);
	if (k < 3) {
		// raw bit patterns, finite
		uint64_t bits = *U64();
		double d = bits2d((long long)bits);
		if (!std::isfinite(d))
			d = bits2d((long long)(bits & ~(1ULL << 62)));
		return d;
	}
	if (k == 3) // denormals
		return bits2d((long long)((*U64() & 0x800fffffffffffffULL) >> *vf::irange<int>(0, 51) | (*vf::irange<int>(0, 1) ? 0x8000000000000000ULL : 0)));
	if (k == 4)
		return *gen::elementOf(std::vector<double>{0.0, -0.0, DBL_MAX, -DBL_MAX, DBL_MIN, -DBL_MIN, 4.9406564584124654e-324, -4.9406564584124654e-324, 2.2250738585072009e-308,
		                                           1.7976931348623155e308, 0.1, 0.2, 0.30000000000000004, 1.0 / 3, 2.0 / 3, 5e-324, 1e22, 1e23, 1e21, 9007199254740993.0,
		                                           9007199254740992.0, 4294967296.0, 2147483648.0, -2147483649.0, 123456789.0, 1234567890.0, 999999999.0, 1e9, 1e15, 1e16, 1e17,
		                                           0.5, -1.5, 5.0, 1e-5, 1e-4, 1e-7, 100.0, 1.7976931348623157e308, 8.5, 12.25, 2.1, 1e300, 1e-300});
	if (k == 5) { // powers of ten
		int e = *vf::irange<int>(-323, 308);
		char b[16];
		snprintf(b, sizeof b, "1e%d", e);
		return (*vf::irange<int>(0, 1) ? -1 : 1) * strtod(b, 0);
	}
	if (k == 6) // integral values of every magnitude
		return std::ldexp((double)(*U64() >> 11), *vf::irange<int>(-53, 40)) * (*vf::irange<int>(0, 1) ? -1 : 1);
	if (k == 7) // small integers as doubles
		return (double)*vf::irange<int>(-100000, 100000);
	if (k == 8) // short decimals
		return *vf::irange<int>(-100000, 100000) / std::pow(10.0, *vf::irange<int>(1, 6));
	// full 53-bit mantissa in a moderate range: needs all 17 digits
	return std::ldexp((double)(*U64() >> 11 | (1ULL << 52)), *vf::irange<int>(-80, 10)) * (*vf::irange<int>(0, 1) ? -1 : 1);
}

float pick_float()
{
	int k = *vf::irange<int>(0, 5);
	if (k < 2) {
		uint32_t bits = *U32();
		float f = bits2f(bits);
		if (!std::isfinite(f))
			f = bits2f(bits & ~(1u << 30));
		return f;
	}
	if (k == 2)
		return *gen::elementOf(std::vector<float>{0.0f, -0.0f, FLT_MAX, -FLT_MAX, FLT_MIN, 1.4e-45f, 0.1f, 0.2f, 1.0f / 3, 16777216.0f, 16777217.0f, 1.5f, -2.5f, 1e10f, 1e-10f, 3.4028233e38f,
		                                          8388608.5f, 123456.79f, 1e38f, 1e-38f, 5e-39f});
	if (k == 3)
		return bits2f(*U32() & 0x807fffffu); // float denormals
	if (k == 4)
		return (float)*vf::irange<int>(-1000, 1000) / 8.0f;
	return (float)(*vf::irange<int>(-100000, 100000) / std::pow(10.0, *vf::irange<int>(0, 5)));
}

struct TreeCfg {
	bool utf8, idkeys;
	int budget, maxdepth, maxstr;
};

MV pick_tree(TreeCfg& c, int depth)
{
	MV m;
	c.budget--;
	bool leaf = depth >= c.maxdepth || c.budget <= 0;
	int k = *gen::weightedElement<int>({{1, 0}, {1, 1}, {3, 2}, {4, 3}, {2, 4}, {4, 5}, {leaf ? 0 : (depth == 0 ? 90 : 6), 6}, {leaf ? 0 : (depth == 0 ? 90 : 6), 7}});
	switch (k) {
	case 0: m.k = MV::Null; break;
	case 1:
		m.k = MV::Bool;
		m.b = *vf::irange<int>(0, 1) != 0;
		break;
	case 2:
		m.k = MV::Int;
		m.i = pick_int();
		break;
	case 3:
		m.k = MV::Dbl;
		m.d = pick_double();
		break;
	case 4:
		m.k = MV::Flt;
		m.f = pick_float();
		break;
	case 5:
		m.k = MV::Str;
		m.how = *vf::irange<int>(0, 1);
		m.s = pick_string(c.utf8, c.maxstr);
		break;
	case 6: {
		m.k = MV::Arr;
		int shape = *vf::irange<int>(0, 7);
		int n = shape == 0 ? *vf::irange<int>(9, 40) : *vf::srange<int>(0, 9);
		if (shape == 0) { // wide homogeneous arrays: the pretty printer's multi-line / 16-per-line layouts
			int what = *vf::irange<int>(0, 3);
			for (int i = 0; i < n && c.budget > 0; i++) {
				MV e;
				c.budget--;
				if (what == 0) {
					e.k = MV::Int;
					e.i = pick_int();
				}
				else if (what == 1) {
					e.k = MV::Dbl;
					e.d = pick_double();
				}
				else if (what == 2) {
					e.k = MV::Str;
					e.how = i & 1;
					e.s = pick_string(c.utf8, 20);
				}
				else {
					e.k = MV::Bool;
					e.b = (i % 3) == 0;
				}
				m.kids.push_back(e);
			}
		}
		else
			for (int i = 0; i < n && c.budget > 0; i++)
				m.kids.push_back(pick_tree(c, depth + 1));
		break;
	}
	default: {
		m.k = MV::Obj;
		int n = *vf::srange<int>(0, 9);
		for (int i = 0; i < n && c.budget > 0; i++) {
			std::string key = pick_key(c.utf8, c.idkeys);
			bool dup = false;
			for (auto& x : m.keys)
				if (x == key)
					dup = true;
			if (dup)
				continue;
			m.keys.push_back(key);
			m.kids.push_back(pick_tree(c, depth + 1));
		}
	}
	}
	return m;
}

MV pick_root(int maxnodes, int maxstr)
{
	TreeCfg c;
	int flavour = *vf::irange<int>(0, 5);
	c.utf8 = flavour != 0 && flavour != 1; // 2/6 of the trees carry arbitrary (non UTF-8) bytes
	c.idkeys = flavour == 1 || flavour >= 4; // half of the trees use identifier keys (and so also go through Xdl)
	c.budget = maxnodes;
	c.maxdepth = *vf::irange<int>(1, 7);
	c.maxstr = maxstr;
	return pick_tree(c, 0);
}

void classify_tree(const vf::Case& c, const char* part)
{
	size_t pos = 0;
	bool hostile = !c.ops.empty() && c.ops[0].name == "hostile";
	if (hostile)
		pos = 1;
	if (pos < c.ops.size() && (c.ops[pos].name == "file" || c.ops[pos].name == "sweep" || c.ops[pos].name == "target"))
		pos++;
	bool filecase = pos > (hostile ? 1u : 0u);
	MV m = read_tree(c.ops, pos, false, 0);
	Traits t;
	scan(m, t, 1);
	auto& st = vf::stats();
	if (hostile) {
		static const char* HK[] = {"prefix", "cut_inside_u_escape", "lone_high_surrogate", "cut_inside_string", "cut_inside_number", "open_comment", "unbalanced_brackets", "bad_token"};
		st.cls(std::string(part) + ".hostile." + HK[((c.ops[0].i(0) % 8) + 8) % 8]);
		st.cls(std::string(part) + ".hostile_cases");
		// the first string in document order starts with a control character that the encoder writes as \u00XX
		const MV* f = &m;
		while (f->k == MV::Arr && !f->kids.empty())
			f = &f->kids[0];
		auto ctl = [](const std::string& x) { return !x.empty() && (unsigned char)x[0] < 0x20 && !strchr("\n\r\t\f", x[0]); };
		if ((f->k == MV::Str && ctl(f->s)) || (f->k == MV::Obj && !f->keys.empty() && ctl(*std::min_element(f->keys.begin(), f->keys.end()))))
			st.cls(std::string(part) + ".hostile_and_first_string_starts_with_control_char");
	}
	std::string p = std::string(part) + ".";
	bool nt = t.ctrl || t.quote || t.bslash || t.slash || t.nonint_dbl || t.flt || t.depth >= 3;
	if (nt || filecase)
		st.nt(vf::fnv(vf::serialize(c)));
	auto cl = [&](bool b, const char* name) {
		if (b)
			st.cls(p + name);
	};
	cl(t.ctrl, "has_control_char");
	cl(t.ctrlkey, "has_control_char_in_key");
	cl(t.slashkey, "has_slash_in_key");
	cl(t.slash, "has_slash");
	cl(t.quote, "has_quote");
	cl(t.bslash, "has_backslash");
	cl(t.del, "has_DEL");
	cl(t.multibyte && t.utf8, "has_multibyte_utf8");
	cl(!t.utf8, "not_utf8(no independent-parser clause)");
	cl(t.utf8, "utf8(independent parser clause checked)");
	cl(t.idkeys && t.has_obj, "identifier_keys(Xdl checked)");
	cl(t.nonint_dbl, "has_nonintegral_double");
	cl(t.int_dbl, "has_integral_double");
	cl(t.denormal, "has_denormal");
	cl(t.negzero, "has_negative_zero");
	cl(t.extreme, "has_DBL_MAX/DBL_MIN/INT_MIN/INT_MAX");
	cl(t.flt, "has_float");
	cl(t.big_int, "has_9_or_10_char_int");
	cl(t.emptykey, "has_empty_key");
	cl(t.long_str, "has_heap_string(>=8)");
	cl(t.wide_arr, "has_array_over_10(pretty multi-line)");
	cl(t.depth >= 3, "depth>=3");
	cl(t.depth >= 6, "depth>=6");
	cl(m.k != MV::Arr && m.k != MV::Obj, "scalar_root");
	cl(t.nodes >= 50, "nodes>=50");
	cl(t.nodes >= 200, "nodes>=200");
}

} // namespace

// in 1/4 of the cases: a hostile op, and in 2/3 of those the tree is put behind a first string that starts with a control character
static MV maybe_hostile(MV m, vf::Op& h, bool& on)
{
	using namespace rc;
	on = *vf::irange<int>(0, 3) == 0;
	if (!on)
		return m;
	h = vf::Op("hostile", {*gen::weightedElement<int>({{2, 0}, {5, 1}, {5, 2}, {1, 3}, {1, 4}, {1, 5}, {1, 6}, {1, 7}}), *vf::irange<int>(0, 4000)});
	if (*vf::irange<int>(0, 2) != 0) {
		MV s;
		s.k = MV::Str;
		s.how = *vf::irange<int>(0, 1);
		s.s = std::string(1, (char)*gen::elementOf(std::vector<int>{1, 2, 7, 8, 11, 14, 27, 31})) + *gen::elementOf(std::vector<std::string>{"", "a", "bell", "12345678"});
		int shape = *vf::irange<int>(0, 3);
		if (shape == 0)
			return s; // the string alone
		MV w;
		if (shape == 3) { // as the (bytewise smallest, hence first) key
			w.k = MV::Obj;
			w.keys.push_back(s.s);
			w.kids.push_back(m);
			return w;
		}
		w.k = MV::Arr;
		w.kids.push_back(s);
		w.kids.push_back(m);
		return w;
	}
	return m;
}

static vf::Case tree_case(const MV& m0, const vf::Op* head, bool allow_hostile = true)
{
	vf::Case c;
	vf::Op h;
	bool on = false;
	MV m = allow_hostile ? maybe_hostile(m0, h, on) : m0;
	if (on)
		c.ops.push_back(h);
	if (head)
		c.ops.push_back(*head);
	write_tree(m, c, 0);
	return c;
}

void vf_search(const vf::Args& a)
{
	using namespace rc;
	// (1) in-memory round trips in every mode
	[&]() {
		auto g = gen::exec([]() {
			MV m = pick_root(400, 40);
			return tree_case(m, 0);
		});
		int samples = 0;
		vf::check_cases("mem", a.n(6000, 16000), 100, g, [&](const vf::Case& c) {
			classify_tree(c, "mem");
			if (c.ops.size() >= 4 && c.ops.size() <= 8 && samples++ < 2)
				vf::stats().sample("mem: " + vf::serialize(c));
		});
	}();
	// (1b) long strings (encoder buffer growth, pretty printer's 100-byte rule), moderate count
	[&]() {
		auto g = gen::exec([]() {
			MV m = pick_root(60, 400);
			return tree_case(m, 0);
		});
		vf::check_cases("mem", a.n(400, 2000), 40, g, [&](const vf::Case& c) { classify_tree(c, "mem"); });
	}();
	// (2) file round trips: small trees with the reader's chunk edge placed at a generated position of the body,
	//     through the real writer (padkind 0/1) and through hand-made files (2/3)
	[&]() {
		auto g = gen::exec([]() {
			MV m = pick_root(40, 30);
			vf::Op head("file");
			int padkind = *gen::weightedElement<int>({{3, 0}, {3, 1}, {2, 2}, {2, 3}});
			head.a = {*vf::irange<int>(0, 1), *vf::irange<int>(0, 4), padkind, *vf::irange<int>(0, 5000)};
			return tree_case(m, &head);
		});
		int samples = 0;
		vf::check_cases("file", a.n(800, 5000), 50, g, [&](const vf::Case& c) {
			classify_tree(c, "file");
			if (c.ops.size() <= 4 && samples++ < 2)
				vf::stats().sample("file: " + vf::serialize(c));
		});
	}();
	// (3) bulk documents (tens of KB in quick, up to MBs in thorough) through write/read: writer flushes and many reader chunks
	[&]() {
		auto g = gen::exec([&]() {
			vf::Op head("file");
			head.a = {*vf::irange<int>(0, 1), *vf::irange<int>(0, 4), 0, 0};
			vf::Op t("gen");
			long nodes = a.quick() ? *vf::irange<int>(500, 12000) : (*vf::irange<int>(0, 9) == 0 ? *vf::irange<int>(100000, 250000) : *vf::irange<int>(500, 40000));
			t.a = {(long long)(*U32()), nodes, *vf::irange<int>(2, 7), *vf::irange<int>(0, 3)};
			vf::Case c;
			c.ops = {head, t};
			return c;
		});
		vf::check_cases("bulk", a.n(60, 200), 50, g, [&](const vf::Case& c) {
			vf::stats().nt(vf::fnv(vf::serialize(c)));
			vf::stats().cls("bulk.documents");
		});
	}();
	// (4) the sliding-prefix sweep: for a generated body, EVERY offset of the body is put at the reader's chunk edge
	[&]() {
		int kind = 1 + (int)((a.worker + a.seed) % 3);
		auto g = gen::exec([&]() {
			MV m = pick_root(a.quick() ? 25 : 40, 20);
			vf::Op head("sweep");
			head.a = {*vf::irange<int>(0, 1), *gen::elementOf(std::vector<int>{0, 0, 1, 2, 3}), *gen::elementOf(std::vector<int>{kind, 1, 2, 3}), 1};
			return tree_case(m, &head);
		});
		int samples = 0;
		vf::check_cases("sweep", a.n(20, 48), 60, g, [&](const vf::Case& c) {
			classify_tree(c, "sweep");
			if (samples++ < 1)
				vf::stats().sample("sweep: " + vf::serialize(c));
		});
	}();
	// (6) special target paths: EVERY file-name length 1..255 (enumerated, split between the workers), and generated trees to
	//     symlinks (existing / missing target), one of two hard links, an existing longer file
	[&]() {
		uint64_t n = 0;
		for (int len = 1; len <= 255; len++) {
			if (len % a.workers != a.worker)
				continue;
			MV m;
			m.k = MV::Arr;
			MV e;
			e.k = MV::Int;
			e.i = len;
			m.kids.push_back(e);
			e.k = MV::Str;
			e.s = "x\x07";
			m.kids.push_back(e);
			vf::Op head("target", {0, len, len & 1, (len >> 1) % 5});
			vf::Case c = tree_case(m, &head, false);
			if (!vf::runner().run("target", c))
				return;
			n++;
		}
		vf::stats().nt_counted(n);
		vf::stats().part("target.every_file_name_length_1..255", n, true);
		auto g = gen::exec([]() {
			MV m = pick_root(30, 30);
			vf::Op head("target");
			head.a = {*gen::weightedElement<int>({{2, 0}, {3, 1}, {3, 2}, {3, 3}, {2, 4}}), *gen::weightedOneOf<int>({{3, vf::irange<int>(248, 255)}, {1, vf::irange<int>(1, 255)}}),
			          *vf::irange<int>(0, 1), *vf::irange<int>(0, 4)};
			return tree_case(m, &head);
		});
		vf::check_cases("target", a.n(250, 2500), 50, g, [&](const vf::Case& c) { classify_tree(c, "target"); });
	}();
	// (5) documents of 1..4 bytes through files, all of them: every scalar text that short
	[&]() {
		std::vector<MV> tiny;
		for (int i = -9; i <= 99; i++) {
			MV m;
			m.k = MV::Int;
			m.i = i;
			tiny.push_back(m);
		}
		for (int b = 0; b < 2; b++) {
			MV m;
			m.k = MV::Bool;
			m.b = b;
			tiny.push_back(m);
		}
		for (const char* s : {"", "a", "ab", "/", "\x7f"}) {
			MV m;
			m.k = MV::Str;
			m.s = s;
			tiny.push_back(m);
		}
		MV e;
		e.k = MV::Arr;
		tiny.push_back(e);
		e.k = MV::Obj;
		tiny.push_back(e);
		e.k = MV::Null;
		tiny.push_back(e);
		uint64_t n = 0, idx = 0;
		for (auto& m : tiny)
			for (int fmt = 0; fmt < 2; fmt++)
				for (int mode = 0; mode < 5; mode++, idx++) {
					if ((int)(idx % (uint64_t)a.workers) != a.worker) // the workers split the enumeration
						continue;
					vf::Op head("file", {fmt, mode, 0, 0});
					vf::Case c = tree_case(m, &head, false);
					if (!vf::runner().run("tiny", c))
						return;
					n++;
				}
		vf::stats().nt_counted(n);
		vf::stats().part("tiny.all_scalars_and_empty_containers_of_1..4_bytes_x_modes", n, true);
	}();
}
