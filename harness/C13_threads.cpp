// C13 -- Thread start/join, ThreadGroup, parallel_for, parallel_invoke, Semaphore, Condition.
// Parts:
//   pfor      every (i0, i1, n) in [-3,40]^2 x [1,12] (exhaustive grid) + sampled large ranges: each index in [i0,i1)
//             invoked exactly once, no other index touched, all done when parallel_for returns
//   thread    generated scenarios (subclassed / lambda / functor Thread, ThreadGroup, parallel_invoke 2/3/4) with bodies from
//             empty to sleeping, repeated under seeded timing jitter injected at the library's hand-over points
//   handover  small scenarios under the deterministic scheduler: EVERY interleaving of creator and workers at the
//             hand-over points (spawn, entry, context flag set/wait, finished-flag store, exit, join)
//   sync      generated producer/consumer scripts over Semaphore and Condition following the documented protocol
// Oracle: the body ran exactly once per task, its stores are visible after join(), finished() is true after join()
// and stays true, parallel_for's index counters are exact immediately after it returns, every waiter completes.
#include "common/vfrc.h"
#include <memory>
#include <pthread.h>
#include <thread>
#include <signal.h>
#include "common/ref_codec.h"
#define VSCHED_NO_OBSERVER
#include "../sched/vsched.h"
#include <asl/Thread.h>
#include <asl/Mutex.h>
#include <atomic>

using namespace asl;

const char* vf_harness_name() { return "C13_threads"; }

// ---------------------------------------------------------------------------------------------
// observer: deterministic scheduler when active, otherwise seeded timing jitter at the hand-over points

static std::atomic<uint64_t> g_jitter{0};
static std::atomic<unsigned> g_pointno{0};

extern "C" void asl_verif_point(int kind, const volatile void* obj)
{
	if (vsched::S().active) {
		vsched::point(kind, obj);
		return;
	}
	uint64_t js = g_jitter.load(std::memory_order_relaxed);
	if (!js || kind < 10 || kind > 18)
		return;
	unsigned idx = g_pointno++;
	uint64_t h = (js + idx * 0x9e3779b97f4a7c15ULL + (uint64_t)kind * 0xbf58476d1ce4e5b9ULL);
	h ^= h >> 29;
	h *= 0x94d049bb133111ebULL;
	h ^= h >> 32;
	if (h % 3 == 0)
		usleep((unsigned)((h >> 8) % 200));
	else if (h % 3 == 1)
		sched_yield();
}

// ---------------------------------------------------------------------------------------------
// task bodies

static const int NTASK = 16, NDATA = 8;

struct Board {
	std::atomic<int> ran[NTASK];
	int data[NTASK][NDATA]; // plain stores: must be visible to the joiner after join()
	Board()
	{
		for (int i = 0; i < NTASK; i++) {
			ran[i] = 0;
			for (int j = 0; j < NDATA; j++)
				data[i][j] = 0;
		}
	}
};

static void body(Board* b, int slot, int kind, int arg)
{
	switch (kind % 4) {
	case 0: // empty: the thread ends at once (possibly before its creator resumes)
		break;
	case 1: // a few stores
		for (int j = 0; j < NDATA; j++)
			b->data[slot][j] = slot * 100 + j + 1;
		break;
	case 2: { // spin
		volatile unsigned x = 0;
		for (int i = 0; i < (arg % 20000); i++)
			x += i;
		b->data[slot][0] = slot * 100 + 1;
		break;
	}
	case 3: // sleep
		usleep(arg % 1500);
		b->data[slot][0] = slot * 100 + 1;
		break;
	}
	b->ran[slot]++;
}

static void check_task(Board& b, int slot, int kind)
{
	VF_CHECK(b.ran[slot] == 1, "task ", slot, " ran ", b.ran[slot].load(), " times (want exactly once) by the time join() returned");
	if (kind % 4 == 1)
		for (int j = 0; j < NDATA; j++)
			VF_CHECK(b.data[slot][j] == slot * 100 + j + 1, "store ", j, " of task ", slot, " not visible after join()");
	if (kind % 4 >= 2)
		VF_CHECK(b.data[slot][0] == slot * 100 + 1, "store of task ", slot, " not visible after join()");
}

struct SubThread : public Thread {
	Board* b;
	int slot, kind, arg;
	SubThread() : b(0), slot(0), kind(0), arg(0) {}
	SubThread(Board* bb, int s, int k, int a) : b(bb), slot(s), kind(k), arg(a) {}
	void run() { body(b, slot, kind, arg); }
};

struct Functor {
	Board* b;
	int slot, kind, arg;
	void operator()() const { body(b, slot, kind, arg); }
};

// one thread scenario; tkind: 0 subclass, 1 lambda, 2 functor, 3 ThreadGroup(members), 4/5/6 parallel_invoke with 2/3/4
static void scenario_thread(int tkind, int bkind, int arg, int members)
{
	Board b;
	switch (tkind % 11) {
	case 10: { // start() again on an object whose previous run has ended (seen through finished()) but was never joined:
		   // the second start() is a started Thread too, its body runs exactly once more and join() waits for it.
		   // (Only two starts: finished() stays true after the first run, so a third start() could not know whether the
		   // second run's thread has stopped touching the object.)
		SubThread t(&b, 0, bkind, arg);
		t.start();
		double t0 = vf::now();
		while (!t.finished() && vf::now() - t0 < 20)
			usleep(50);
		VF_CHECK(t.finished(), "subclassed Thread: finished() still false 20 s after start()");
		VF_CHECK(b.ran[0] == 1, "subclassed Thread: finished() is true but the body has run ", b.ran[0].load(), " times");
		t.start();
		t.join();
		VF_CHECK(b.ran[0] == 2, "subclassed Thread started again after its first run had ended (finished() true, never joined): the body ran ", b.ran[0].load(),
		         " times in total by the time join() returned (want 2)");
		VF_CHECK(t.finished(), "subclassed Thread: finished() is false after join()");
		break;
	}
	case 9: { // a started Thread is copied, joined through the copy (as parallel_invoke and ThreadGroup do with their members);
		  // another thread is started before the original object goes away, and must still be joined properly
		SubThread* u = 0;
		{
			SubThread t(&b, 0, bkind, arg);
			t.start();
			Array<Thread> copies;
			copies << t;
			copies[0].join();
			check_task(b, 0, bkind);
			u = new SubThread(&b, 1, 3, 1200 + arg % 300); // sleeps ~1.2-1.5 ms, then stores
			u->start();
		} // original (and the array copy) destroyed here while u runs
		u->join();
		check_task(b, 1, 3);
		VF_CHECK(u->finished(), "subclassed Thread started while a joined thread's objects were being destroyed: finished() is false after join()");
		delete u;
		break;
	}
	case 7: { // the same subclassed Thread object started and joined again: every round runs the body once more
		SubThread t(&b, 0, bkind, arg);
		int rounds = 2 + (members % 2 + 2) % 2;
		for (int r = 0; r < rounds; r++) {
			t.start();
			t.join();
			VF_CHECK(b.ran[0] == r + 1, "subclassed Thread, round ", r + 1, " of start()/join() on the same object: the body has run ", b.ran[0].load(), " times when join() returned (want ", r + 1, ")");
			VF_CHECK(t.finished(), "subclassed Thread: finished() is false after join() in round ", r + 1);
		}
		break;
	}
	case 8: { // the same ThreadGroup started and joined again
		int n = 1 + (members % 6 + 6) % 6;
		ThreadGroup<SubThread> g;
		for (int i = 0; i < n; i++)
			g << SubThread(&b, i, bkind + i, arg + i * 37);
		for (int r = 0; r < 2; r++) {
			g.start();
			g.join();
			for (int i = 0; i < n; i++)
				VF_CHECK(b.ran[i] == r + 1, "ThreadGroup of ", n, ", round ", r + 1, " of start()/join(): member ", i, " has run ", b.ran[i].load(), " times when join() returned (want ", r + 1, ")");
		}
		break;
	}
	case 0: {
		SubThread t(&b, 0, bkind, arg);
		t.start();
		t.join();
		check_task(b, 0, bkind);
		VF_CHECK(t.finished(), "subclassed Thread: finished() is false after join()");
		break;
	}
	case 1: {
		Board* pb = &b;
		Thread t([=]() { body(pb, 0, bkind, arg); });
		t.join();
		check_task(b, 0, bkind);
		VF_CHECK(t.finished(), "lambda Thread: finished() is false after join()");
		VF_CHECK(t.finished(), "lambda Thread: finished() did not stay true");
		break;
	}
	case 2: {
		Functor f = {&b, 0, bkind, arg};
		if (arg & 1) { // the static form: starts f on an existing Thread object and returns a copy that carries the handle
			Thread obj;
			Thread t = Thread::start(f, &obj);
			t.join();
			check_task(b, 0, bkind);
			break;
		}
		Thread t(f);
		t.join();
		check_task(b, 0, bkind);
		VF_CHECK(t.finished(), "functor Thread: finished() is false after join()");
		break;
	}
	case 3: {
		int n = 1 + (members % 8 + 8) % 8;
		ThreadGroup<SubThread> g;
		for (int i = 0; i < n; i++)
			g << SubThread(&b, i, bkind + i, arg + i * 37);
		g.start();
		g.join();
		for (int i = 0; i < n; i++)
			check_task(b, i, bkind + i);
		break;
	}
	case 4: {
		Board* pb = &b;
		Thread::parallel_invoke([=]() { body(pb, 0, bkind, arg); }, [=]() { body(pb, 1, bkind + 1, arg); });
		check_task(b, 0, bkind);
		check_task(b, 1, bkind + 1);
		break;
	}
	case 5: {
		Board* pb = &b;
		Thread::parallel_invoke([=]() { body(pb, 0, bkind, arg); }, [=]() { body(pb, 1, bkind + 1, arg); }, [=]() { body(pb, 2, bkind + 2, arg); });
		for (int i = 0; i < 3; i++)
			check_task(b, i, bkind + i);
		break;
	}
	case 6: {
		Board* pb = &b;
		Thread::parallel_invoke([=]() { body(pb, 0, bkind, arg); }, [=]() { body(pb, 1, bkind + 1, arg); }, [=]() { body(pb, 2, bkind + 2, arg); },
		                        [=]() { body(pb, 3, bkind + 3, arg); });
		for (int i = 0; i < 4; i++)
			check_task(b, i, bkind + i);
		break;
	}
	}
}

// fire and forget: start(), see the run end through finished(), destroy the object without join() -- N times in a row. Every
// start() must run its body once; N exceeds the number of thread stacks the process could keep mapped if ended threads were
// never released (vm.max_map_count / 2), so it is the property itself that is checked, not resource use.
static void scenario_many(int n)
{
	Board b;
	long maxmap = 65530;
	if (FILE* f = fopen("/proc/sys/vm/max_map_count", "r")) {
		if (fscanf(f, "%ld", &maxmap) != 1)
			maxmap = 65530;
		fclose(f);
	}
	long total = n > 0 ? n : maxmap / 2 + 3000;
	if (total > 120000)
		total = 120000; // (a huge limit: the history would take minutes; counted as not exceeding the limit)
	for (long i = 0; i < total; i++) {
		int before = b.ran[0];
		{
			SubThread t(&b, 0, 0, 0);
			try {
				t.start();
			}
			catch (...) {
				VF_FAIL(vf::str("start() number ", i + 1, " of a subclassed Thread failed (the ", i, " earlier threads had all ended and their objects were destroyed)"));
			}
			double t0 = vf::now();
			while (!t.finished() && vf::now() - t0 < 20)
				sched_yield();
			VF_CHECK(t.finished(), "thread ", i + 1, " of a fire-and-forget series: finished() still false after 20 s");
		}
		VF_CHECK(b.ran[0] == before + 1, "thread ", i + 1, " of a fire-and-forget series ran its body ", b.ran[0] - before, " times");
	}
	vf::stats().cls(total > maxmap / 2 ? "many.fire_and_forget_series_longer_than_map_limit/2" : "many.fire_and_forget_series_short");
	vf::stats().cls("many.threads", total);
}

// parallel_for over [i0, i1) with nth threads; a guarded counter array catches indices outside the range
static void scenario_pfor(int i0, int i1, int nth, int slow, int guard_lo, int guard_hi)
{
	int lo = std::min(i0, i1) - guard_lo, hi = std::max(i0, i1) + guard_hi;
	std::vector<std::atomic<int>> cnt(hi - lo + 1);
	for (auto& c : cnt)
		c = 0;
	std::atomic<int> outside{0};
	std::atomic<int>* pc = cnt.data();
	std::atomic<int>* po = &outside;
	auto fbody = [=](int i) {
		if (i == slow)
			usleep(300);
		if (i < lo || i > hi)
			(*po)++;
		else
			pc[i - lo]++;
	};
	if (nth == 8 && (i0 & 1)) // the documented default thread count, through the default argument
		Thread::parallel_for(i0, i1, fbody);
	else
		Thread::parallel_for(i0, i1, fbody, nth);
	// read immediately after parallel_for returned
	VF_CHECK(outside == 0, "parallel_for(", i0, ",", i1, ",f,", nth, ") invoked f for ", outside.load(), " indices far outside the range");
	for (int i = lo; i <= hi; i++) {
		int want = (i >= i0 && i < i1) ? 1 : 0;
		int got = cnt[i - lo];
		VF_CHECK(got == want, "parallel_for(", i0, ",", i1, ",f,", nth, "): f(", i, ") was invoked ", got, " times when parallel_for returned (want ", want, ")");
	}
}

// Semaphore: P producers post `per` times each, C consumers wait; total waits == total posts; everyone must finish
static void scenario_sem(int nprod, int ncons, int per, int delay)
{
	nprod = 1 + (nprod % 4 + 4) % 4;
	ncons = 1 + (ncons % 4 + 4) % 4;
	per = 1 + (per % 50 + 50) % 50;
	int total = nprod * per * ncons; // each producer posts per*ncons, each consumer waits nprod*per
	(void)total;
	Semaphore sem(0);
	std::atomic<int> done{0}, got{0};
	std::vector<Thread*> ts;
	Semaphore* ps = &sem;
	std::atomic<int>*pd = &done, *pg = &got;
	for (int c = 0; c < ncons; c++)
		ts.push_back(new Thread([=]() {
			for (int k = 0; k < nprod * per; k++) {
				if ((delay + c) % 4 == 3) { // polling consumer: trywait() takes a token iff one is there
					double tw = vf::now();
					while (!ps->trywait() && vf::now() - tw < 25)
						sched_yield();
				}
				else if ((delay + c) % 4 == 2) { // timed waits with a fractional timeout, repeated until a token arrives
					double tw = vf::now();
					while (!ps->wait(0.35) && vf::now() - tw < 25) {
					}
				}
				else
					ps->wait();
				(*pg)++;
			}
			(*pd)++;
		}));
	for (int p = 0; p < nprod; p++)
		ts.push_back(new Thread([=]() {
			for (int k = 0; k < per * ncons; k++) {
				if (delay % 3 == 1 && k % 7 == 0)
					usleep(delay % 50);
				if (delay % 7 == 3 && k % 3 == 0)
					ps->post(0); // an empty batch: adds nothing
				if (delay % 5 == 2 && k + 1 < per * ncons) {
					ps->post(2); // post(n)
					k++;
				}
				else
					ps->post();
			}
			(*pd)++;
		}));
	double t0 = vf::now();
	while (done < nprod + ncons && vf::now() - t0 < 20)
		usleep(200);
	bool hung = done < nprod + ncons;
	int got_at_timeout = got;
	if (hung) {
		printf("HANG-DIAG: Semaphore: %d posts were issued but only %d waits completed within 20 s (lost post)\n", nprod * per * ncons, got_at_timeout);
		fflush(stdout);
		sem.post(nprod * per * ncons + 8); // release stuck waiters so the threads can be joined
	}
	for (auto t : ts) {
		t->join();
		delete t;
	}
	VF_CHECK(!hung, "Semaphore: ", nprod * per * ncons, " posts were issued but only ", got_at_timeout, " waits completed within 20 s (lost post)");
	VF_CHECK(sem.value() == 0, "Semaphore value ", sem.value(), " after equal numbers of posts and waits");
}

// Semaphore::wait(timeout): a post issued well before the timeout must be delivered to the waiter (wait returns true, at
// once); timeouts with and without fractional parts, the wait starting at any phase of the wall-clock second.
// A false return is accepted only when the deadline had really been reached before any post was issued.
static void scenario_semt(int tsel, int nwaits, int phase, int delay)
{
	static const double TO[] = {2.5, 3.25, 2.75, 4.9, 2.999, 3.0, 2.001, 5.5};
	double timeout = TO[(tsel % 8 + 8) % 8];
	nwaits = 1 + (nwaits % 4 + 4) % 4;
	for (int k = 0; k < nwaits; k++) {
		Semaphore sem(0);
		Semaphore* ps = &sem;
		std::atomic<double> posted{0};
		std::atomic<double>* pp = &posted;
		// start at a chosen tenth of the wall-clock second (only delays this thread; the oracle does not depend on it)
		double ph = ((phase + k * 3) % 10 + 10) % 10 / 10.0 + 0.03;
		double nw = asl::now(), fr = nw - floor(nw);
		double wait_ph = ph - fr;
		if (wait_ph < 0)
			wait_ph += 1;
		if (wait_ph < 0.35) // (never sleeps long: cases that would need more keep their natural phase)
			usleep((unsigned)(wait_ph * 1e6));
		int d_us = 500 + (delay * 37 + k * 1013) % 20000;
		Thread poster([=]() {
			usleep(d_us);
			ps->post();
			*pp = vf::now();
		});
		double t0 = vf::now();
		bool ok = sem.wait(timeout);
		double t1 = vf::now();
		poster.join();
		double pt = posted;
		if (!ok) {
			bool before_deadline = t1 - t0 < timeout - 0.2;
			bool post_was_there = pt > 0 && pt <= t1;
			VF_CHECK(!(before_deadline || post_was_there), "Semaphore::wait(", timeout, ") on an empty semaphore returned false after ", t1 - t0, " s; post() was issued ", pt - t0,
			         " s after the wait began, value() is now ", sem.value(), " (the post was not delivered to the waiter)");
			vf::stats().cls("semt.legitimate_timeout");
		}
		else {
			VF_CHECK(sem.value() == 0, "Semaphore::wait(timeout) returned true but value() is ", sem.value(), " after one post and one successful wait");
			vf::stats().cls(timeout != floor(timeout) ? "semt.fractional_timeout_delivered" : "semt.integral_timeout_delivered");
		}
		// an expired wait: no post at all, short fractional timeout -> false, and not much too early
		if (k == 0 && (delay % 4) == 0) {
			double s0 = vf::now();
			bool r = sem.wait(0.0125);
			double s1 = vf::now();
			VF_CHECK(!r, "Semaphore::wait(0.0125) returned true on a semaphore nobody posted");
			(void)s0;
			(void)s1;
			vf::stats().cls("semt.expired_wait");
		}
	}
}


// Semaphore under signals: a handler installed WITHOUT SA_RESTART interrupts the consumer's earlier blocking call (errno is left
// at EINTR) or the wait itself; every wait() must still take exactly one token: n posts are matched by exactly n returned waits.
static void semsig_handler(int) {}
struct SemSigState {
	Semaphore sem;
	std::atomic<int> taken{0}, phase{0};
	std::atomic<bool> done{false};
	SemSigState() : sem(0) {}
};
static void scenario_semsig(int rounds, int delay)
{
	rounds = 1 + (rounds % 5 + 5) % 5;
	struct sigaction sa, old;
	memset(&sa, 0, sizeof sa);
	sa.sa_handler = semsig_handler; // no SA_RESTART
	sigemptyset(&sa.sa_mask);
	sigaction(SIGUSR1, &sa, &old);
	auto st = std::make_shared<SemSigState>(); // (shared: the consumer is abandoned if it can never be released)
	std::thread consumer([st, rounds]() {
		for (int r = 0; r < rounds; r++) {
			st->phase = 2 * r + 1;
			usleep(300000); // interrupted by SIGUSR1 (EINTR), or runs out
			st->phase = 2 * r + 2;
			st->sem.wait();
			st->taken++;
			st->sem.wait();
			st->taken++;
		}
		st->done = true;
	});
	pthread_t ct = consumer.native_handle();
	bool hung = false;
	int posted = 0;
	for (int r = 0; r < rounds && !hung; r++) {
		double t0 = vf::now();
		while (st->phase < 2 * r + 1 && vf::now() - t0 < 20)
			usleep(100);
		usleep(1000 + (delay * 131 + r * 977) % 4000);
		st->sem.post(); // two tokens are there before the consumer starts waiting ...
		st->sem.post();
		posted += 2;
		pthread_kill(ct, SIGUSR1); // ... and its sleep is cut short by the signal
		if ((delay + r) % 2) {
			usleep(200 + delay % 700);
			pthread_kill(ct, SIGUSR1); // sometimes a second signal lands around / inside the waits
		}
		t0 = vf::now();
		while (st->taken < 2 * (r + 1) && vf::now() - t0 < 20)
			usleep(200);
		hung = st->taken < 2 * (r + 1);
	}
	// Judged: a wait() never takes more than one token, and never blocks while a token is there. (POSIX lets sem_wait return
	// early with EINTR when a signal lands INSIDE it; the wrapper then returns without a token. That is a spurious return, not a
	// lost post, and is not judged: tokens taken = posts - value() must only never EXCEED the number of returned waits.)
	int got = st->taken, left = st->sem.value();
	int consumed = posted - left;
	bool swallowed = consumed > got;
	bool blocked_with_token = hung && left > 0;
	if (hung) {
		printf("HANG-DIAG: Semaphore under signals: the consumer's wait() calls returned %d times, %d tokens were taken, %d are left: %s\n", got, consumed, left,
		       swallowed ? "one wait() took more than one token" : "wait() blocks although a token is there");
		fflush(stdout);
		for (int k = 0; k < 40 && !st->done; k++) { // release it if that is possible at all
			st->sem.post(2);
			usleep(50000);
		}
	}
	if (st->done)
		consumer.join();
	else
		consumer.detach(); // a wait() that swallows every token can never be released; the shared state keeps it harmless
	sigaction(SIGUSR1, &old, 0);
	VF_CHECK(!swallowed, "Semaphore under signals (handler without SA_RESTART, errno left at EINTR by an interrupted sleep): ", consumed, " tokens were taken by ", got, " returned wait() calls (a wait() took more than one token)");
	VF_CHECK(!blocked_with_token, "Semaphore under signals: wait() did not return within 20 s although ", left, " token(s) were there (lost post)");
}

// Condition with a timed wait whose deadline passes while the signaller HOLDS the mutex (the waiter can only return once the
// signaller unlocks), followed by an ordinary single waiter on the same Condition: its signal must not be lost
struct CondLateState {
	Mutex mutex;
	Condition cond;
	bool flag1 = false, flag2 = false; // protected by mutex
	std::atomic<int> inwait{0}, st{0};
	CondLateState() : cond(mutex) {}
};
static void scenario_condlate(int rounds, int delay)
{
	rounds = 1 + (rounds % 3 + 3) % 3;
	for (int r = 0; r < rounds; r++) {
		auto S = std::make_shared<CondLateState>(); // (shared: a waiter that can never be woken is abandoned)
		// step 1: timed wait that expires behind the signaller's back
		double tmo = 0.05 + (delay % 5) * 0.01;
		std::thread w1([S, tmo]() {
			S->mutex.lock();
			S->inwait = 1;
			while (!S->flag1)
				S->cond.wait(tmo);
			S->mutex.unlock();
			S->inwait = 2;
		});
		double t0 = vf::now();
		while (!S->inwait && vf::now() - t0 < 10)
			usleep(100);
		usleep(2000);
		S->mutex.lock();
		usleep(150000 + (delay % 7) * 10000); // the waiter's deadline passes while we hold the mutex
		S->flag1 = true;
		S->cond.signal();
		S->mutex.unlock();
		t0 = vf::now();
		while (S->inwait < 2 && vf::now() - t0 < 20)
			usleep(200);
		if (S->inwait < 2) {
			w1.detach();
			VF_FAIL("Condition: a waiter in the loop while(!flag) wait(timeout) did not get through within 20 s after the flag was set and signalled under the lock");
		}
		w1.join();
		// step 2: one ordinary waiter, signalled once under the lock after it blocked
		std::thread w2([S]() {
			S->mutex.lock();
			S->st = 1;
			while (!S->flag2)
				S->cond.wait();
			S->mutex.unlock();
			S->st = 2;
		});
		t0 = vf::now();
		while (S->st < 1 && vf::now() - t0 < 10)
			usleep(100);
		usleep(20000 + (delay % 11) * 3000);
		S->mutex.lock();
		S->flag2 = true;
		S->cond.signal();
		S->mutex.unlock();
		t0 = vf::now();
		while (S->st < 2 && vf::now() - t0 < 20)
			usleep(200);
		bool hung = S->st < 2;
		if (hung) {
			printf("HANG-DIAG: Condition: after a timed wait had expired while the signaller held the mutex, the next lone waiter was signalled under the lock but did not wake within 20 s (lost signal)\n");
			fflush(stdout);
			for (int k = 0; k < 200 && S->st < 2; k++) {
				S->mutex.lock();
				S->cond.signal();
				S->mutex.unlock();
				usleep(5000);
			}
		}
		if (S->st == 2)
			w2.join();
		else
			w2.detach();
		VF_CHECK(!hung, "Condition: round ", r, ": after a timed wait had expired while the signaller held the mutex, the next lone waiter was signalled under the lock but did not wake within 20 s (lost signal)");
	}
}

// Condition under the documented protocol: lock; while(!pred) wait(); unlock -- signal under the lock
static void scenario_cond(int nprod, int ncons, int per, int delay)
{
	nprod = 1 + (nprod % 3 + 3) % 3;
	ncons = 1 + (ncons % 4 + 4) % 4;
	per = 1 + (per % 40 + 40) % 40;
	Mutex mutex;
	Condition cond_bound(mutex), cond_late; // two documented ways to bind the mutex: constructor, or use() later
	bool late = (delay % 2) == 1;
	if (late)
		cond_late.use(mutex);
	Condition& cond = late ? cond_late : cond_bound;
	int avail = 0; // protected by mutex
	std::atomic<int> done{0}, got{0};
	Mutex* pm = &mutex;
	Condition* pc = &cond;
	int* pa = &avail;
	std::atomic<int>*pd = &done, *pg = &got;
	std::vector<Thread*> ts;
	for (int c = 0; c < ncons; c++)
		ts.push_back(new Thread([=]() {
			for (int k = 0; k < nprod * per; k++) {
				pm->lock();
				while (*pa == 0) {
					if ((delay + c) % 3 == 2)
						pc->wait(0.45); // timed form of the same protocol (the result only says whether it timed out)
					else
						pc->wait();
				}
				(*pa)--;
				pm->unlock();
				(*pg)++;
			}
			(*pd)++;
		}));
	for (int p = 0; p < nprod; p++)
		ts.push_back(new Thread([=]() {
			for (int k = 0; k < per * ncons; k++) {
				if (delay % 3 == 1 && k % 5 == 0)
					usleep(delay % 40);
				pm->lock();
				if (late && (k + delay) % 5 == 0)
					pc->use(*pm); // each party binding the shared mutex again before using the condition: same mutex, no effect
				(*pa)++;
				pc->signal();
				pm->unlock();
			}
			(*pd)++;
		}));
	double t0 = vf::now();
	while (done < nprod + ncons && vf::now() - t0 < 20)
		usleep(200);
	bool hung = done < nprod + ncons;
	int got_at_timeout = got;
	if (hung) {
		printf("HANG-DIAG: Condition: %d items were signalled under the lock but only %d were consumed within 20 s (lost signal)\n", nprod * per * ncons, got_at_timeout);
		fflush(stdout);
		for (int k = 0; k < 200 && done < nprod + ncons; k++) {
			mutex.lock();
			avail += 1000000;
			cond.signal();
			mutex.unlock();
			usleep(1000);
		}
	}
	for (auto t : ts) {
		t->join();
		delete t;
	}
	VF_CHECK(!hung, "Condition: ", nprod * per * ncons, " items were signalled under the lock but only ", got_at_timeout, " were consumed within 20 s (lost signal)");
	VF_CHECK(avail == 0, "Condition: ", avail, " items left after equal numbers of produce and consume steps");
}

// Condition as documented for "one or more threads" waiting for a flag: lock; while(!ready) wait(); unlock --
// one thread sets the flag and signals ONCE under the lock; every waiter must get through
static void scenario_condflag(int nwait, int delay)
{
	nwait = 1 + (nwait % 6 + 6) % 6;
	Mutex mutex;
	Condition cond(mutex);
	bool ready = false; // protected by mutex
	std::atomic<int> done{0}, waiting{0};
	Mutex* pm = &mutex;
	Condition* pc = &cond;
	bool* pr = &ready;
	std::atomic<int>*pd = &done, *pw = &waiting;
	std::vector<Thread*> ts;
	for (int c = 0; c < nwait; c++)
		ts.push_back(new Thread([=]() {
			pm->lock();
			(*pw)++;
			while (!*pr)
				pc->wait();
			pm->unlock();
			(*pd)++;
		}));
	// usually let the waiters block first (delay), sometimes signal at once
	if (delay % 4 != 0) {
		double t0 = vf::now();
		while (waiting < nwait && vf::now() - t0 < 5)
			usleep(50);
		usleep(delay % 300);
	}
	mutex.lock();
	ready = true;
	cond.signal();
	mutex.unlock();
	double t0 = vf::now();
	while (done < nwait && vf::now() - t0 < 20)
		usleep(200);
	bool hung = done < nwait;
	int done_at_timeout = done;
	if (hung) {
		printf("HANG-DIAG: Condition: the flag was set and signalled once under the lock, but only %d of %d waiters got through within 20 s (lost signal)\n", done_at_timeout, nwait);
		fflush(stdout);
	}
	for (int k = 0; k < 2000 && done < nwait; k++) { // release stuck waiters so the threads can be joined
		mutex.lock();
		cond.signal();
		mutex.unlock();
		usleep(1000);
	}
	for (auto t : ts) {
		t->join();
		delete t;
	}
	VF_CHECK(!hung, "Condition: the flag was set and signalled once under the lock, but only ", done_at_timeout, " of ", nwait, " waiters got through within 20 s (lost signal)");
}

// ---------------------------------------------------------------------------------------------

struct DfsInfo {
	long schedules = 0;
	bool complete = false;
};
static DfsInfo g_dfs;

static void run_under_scheduler(const vf::Op& o)
{
	// hand kind a b c cap: small scenario explored over every interleaving at the hand-over points
	int kind = (int)(o.i(0) % 7 + 7) % 7;
	long cap = o.i(4) > 0 ? o.i(4) : 200000;
	static bool pinned = false;
	if (!pinned) {
		pinned = true;
		vsched::pin_to_cpu(vf::runner().args.mode == "search" ? vf::runner().args.worker : (int)getpid());
	}
	g_dfs = DfsInfo();
	std::vector<int> choices;
	vsched::dfs_reset(false);
	while (true) {
		vsched::begin(choices);
		std::string err;
		try {
			switch (kind) {
			case 0:
				scenario_thread(0, (int)o.i(1), 0, 0);
				break;
			case 1:
				scenario_thread(1, (int)o.i(1), 0, 0);
				break;
			case 2:
				scenario_thread(4, (int)o.i(1), 0, 0);
				break;
			case 3:
				scenario_pfor((int)(o.i(1) % 3), (int)(o.i(1) % 3 + 1 + (o.i(2) % 3 + 3) % 3), (int)(1 + (o.i(3) % 2 + 2) % 2), -100, 2, 2);
				break;
			case 4:
				scenario_thread(3, (int)o.i(1), 0, (int)(o.i(2) % 2)); // ThreadGroup of 1-2
				break;
			case 5:
				scenario_thread(7, (int)o.i(1), 0, 0); // subclassed thread started and joined twice
				break;
			case 6:
				scenario_thread(8, (int)o.i(1), 0, (int)(o.i(2) % 2)); // ThreadGroup of 1-2 started and joined twice
				break;
			}
		}
		catch (vf::Failure& f) {
			err = f.msg;
		}
		vsched::end();
		std::vector<vsched::Decision> d = vsched::S().decisions;
		if (!err.empty()) {
			std::string s;
			for (auto& x : d)
				s += std::to_string(x.chosen) + " ";
			VF_FAIL(err, " [under the deterministic scheduler, choices: ", s, "]");
		}
		g_dfs.schedules++;
		if (!vsched::next_schedule(d, choices)) {
			g_dfs.complete = true;
			break;
		}
		if (g_dfs.schedules >= cap)
			break;
	}
	vf::stats().evaluations += g_dfs.schedules - 1;
	vf::stats().cls("handover.schedules", g_dfs.schedules);
	vf::stats().cls(g_dfs.complete ? "handover.complete" : "handover.truncated");
}

void vf_run_case(const std::string& part, const vf::Case& c)
{
	for (auto& o : c.ops) {
		if (o.name == "pfor") {
			scenario_pfor((int)o.i(0), (int)o.i(1), (int)(o.i(2) < 1 ? 1 : o.i(2)), (int)o.i(3, -100000), 8, 8);
		}
		else if (o.name == "thr") {
			// thr tkind bkind arg members reps jseed
			int reps = (int)(o.i(4, 1) < 1 ? 1 : o.i(4, 1) > 400 ? 400 : o.i(4, 1));
			for (int r = 0; r < reps; r++) {
				g_jitter = o.i(5) ? (uint64_t)o.i(5) * 1000003ULL + r + 1 : 0;
				try {
					scenario_thread((int)o.i(0), (int)o.i(1), (int)o.i(2), (int)o.i(3));
				}
				catch (...) {
					g_jitter = 0;
					throw;
				}
			}
			g_jitter = 0;
		}
		else if (o.name == "pforj") {
			// pforj i0 i1 n slow reps jseed  (jittered repetitions)
			int reps = (int)(o.i(4, 1) < 1 ? 1 : o.i(4, 1) > 400 ? 400 : o.i(4, 1));
			for (int r = 0; r < reps; r++) {
				g_jitter = o.i(5) ? (uint64_t)o.i(5) * 1000003ULL + r + 1 : 0;
				try {
					scenario_pfor((int)o.i(0), (int)o.i(1), (int)(o.i(2) < 1 ? 1 : o.i(2) > 64 ? 64 : o.i(2)), (int)o.i(3, -100000), 8, 8);
				}
				catch (...) {
					g_jitter = 0;
					throw;
				}
			}
			g_jitter = 0;
		}
		else if (o.name == "sem")
			scenario_sem((int)o.i(0), (int)o.i(1), (int)o.i(2), (int)o.i(3));
		else if (o.name == "many")
			scenario_many((int)o.i(0));
		else if (o.name == "semsig")
			scenario_semsig((int)o.i(0), (int)o.i(3));
		else if (o.name == "condlate")
			scenario_condlate((int)o.i(0), (int)o.i(3));
		else if (o.name == "semt")
			scenario_semt((int)o.i(0), (int)o.i(1), (int)o.i(2), (int)o.i(3));
		else if (o.name == "cond")
			scenario_cond((int)o.i(0), (int)o.i(1), (int)o.i(2), (int)o.i(3));
		else if (o.name == "condflag")
			scenario_condflag((int)o.i(0), (int)o.i(3));
		else if (o.name == "hand")
			run_under_scheduler(o);
	}
}

// ---------------------------------------------------------------------------------------------

void vf_search(const vf::Args& a)
{
	using namespace rc;
	// (1) exhaustive grid of parallel_for
	[&]() {
		uint64_t n = 0, idx = 0, nt = 0;
		for (int i0 = -3; i0 <= 40; i0++)
			for (int i1 = -3; i1 <= 40; i1++)
				for (int nth = 1; nth <= 12; nth++, idx++) {
					if ((int)(idx % (uint64_t)a.workers) != a.worker)
						continue;
					vf::Case c;
					c.add(vf::Op("pfor", {i0, i1, nth, -100000}));
					if (!vf::runner().run("pfor", c))
						return;
					n++;
					if (i1 <= i0 || nth > i1 - i0)
						nt++;
					vf::stats().cls(i1 <= i0 ? "pfor.empty_range" : nth > i1 - i0 ? "pfor.more_threads_than_indices" : "pfor.strided");
				}
		// the same grid for three start values with the FIRST index of the last-started thread slow (300 us): "returns only when all
		// invocations are done" must not depend on the last thread happening to be quick
		uint64_t ns = 0;
		for (int i0 : {-3, 0, 17})
			for (int i1 = i0 + 1; i1 <= 40; i1++)
				for (int nth = 2; nth <= 12; nth++, idx++) {
					if ((int)(idx % (uint64_t)a.workers) != a.worker)
						continue;
					int started = nth < i1 - i0 ? nth : i1 - i0;
					vf::Case c;
					c.add(vf::Op("pfor", {i0, i1, nth, i0 + started - 1}));
					if (!vf::runner().run("pfor", c))
						return;
					ns++;
					nt++;
				}
		// more threads than any fixed pool size a refactoring might introduce (after seeded C13-O): nth and the range both above 64 / 128 / 256
		uint64_t nw = 0;
		for (int nth : {63, 64, 65, 66, 100, 127, 128, 129, 200, 257})
			for (int len : {nth - 1, nth, nth + 1, 2 * nth - 1, 2 * nth + 1, 3 * nth + 7})
				for (int i0 : {0, -5}) {
					if ((int)(idx++ % (uint64_t)a.workers) != a.worker)
						continue;
					vf::Case c;
					c.add(vf::Op("pfor", {i0, i0 + len, nth, -100000}));
					if (!vf::runner().run("pfor", c))
						return;
					nw++;
					nt++;
				}
		vf::stats().cls("pfor.wide_63_to_257_threads", nw);
		vf::stats().cls("pfor.grid_with_slow_last_thread", ns);
		vf::stats().nt_counted(nt);
		vf::stats().part("pfor.grid[-3,40]^2x[1,12]", n, true);
		vf::stats().sample("pfor -3 40 12 (and every other (i0,i1,n) of the grid)");
	}();
	// (2) sampled large ranges / slow index / jitter
	[&]() {
		auto g = gen::map(gen::tuple(vf::irange<int>(-1000, 1000), gen::oneOf(vf::irange<int>(0, 70), vf::irange<int>(0, 3000), vf::irange<int>(0, a.quick() ? 20000 : 1000000)), gen::oneOf(vf::irange<int>(1, 64), vf::irange<int>(65, 300)),
		                             vf::irange<int>(0, 70), vf::irange<int>(1, 1000000)),
		                  [=](const std::tuple<int, int, int, int, int>& t) {
			                  vf::Case c;
			                  int i0 = std::get<0>(t), len = std::get<1>(t);
			                  c.add(vf::Op("pforj", {i0, i0 + len, std::get<2>(t), i0 + std::get<3>(t), len > 3000 ? 1 : 3, std::get<4>(t)}));
			                  return c;
		                  });
		vf::check_cases("pfor_sampled", a.n(80, 800), 100, g, [](const vf::Case& c) {
			vf::stats().nt(vf::fnv(vf::serialize(c)));
			vf::stats().cls(c.ops[0].i(1) - c.ops[0].i(0) > 3000 ? "pforj.large" : "pforj.small");
		});
	}();
	// (3) generated thread scenarios under jitter
	[&]() {
		auto g = gen::map(gen::tuple(vf::irange<int>(0, 10), gen::weightedElement<int>({{4, 0}, {2, 1}, {2, 2}, {1, 3}}), vf::irange<int>(0, 20000), vf::irange<int>(0, 7), vf::irange<int>(1, 1000000)),
		                  [=](const std::tuple<int, int, int, int, int>& t) {
			                  vf::Case c;
			                  int reps = std::get<1>(t) == 3 ? 3 : (a.quick() ? 20 : 100);
			                  c.add(vf::Op("thr", {std::get<0>(t), std::get<1>(t), std::get<2>(t), std::get<3>(t), reps, std::get<4>(t)}));
			                  return c;
		                  });
		vf::check_cases("thread", a.n(150, 1200), 100, g, [](const vf::Case& c) {
			auto& o = c.ops[0];
			bool nontrivial = o.i(1) % 4 == 0 || (o.i(1) % 4 == 2 && o.i(2) < 200) || o.i(0) == 1 || o.i(0) == 2 || o.i(0) >= 4; // (kinds 7, 8: restarted thread / group)
			if (nontrivial)
				vf::stats().nt(vf::fnv(vf::serialize(c)));
			static const char* tk[] = {"subclass", "lambda", "functor", "group", "invoke2", "invoke3", "invoke4", "subclass_restarted", "group_restarted", "copied_then_joined_via_copy", "restarted_without_join"};
			static const char* bk[] = {"empty", "stores", "spin", "sleep"};
			vf::stats().cls(vf::str("thread.", tk[o.i(0) % 11]));
			vf::stats().cls(vf::str("body.", bk[o.i(1) % 4]));
			vf::stats().cls("thread.jittered_repetitions", o.i(4));
			if (o.i(0) == 1 && o.i(1) == 0)
				vf::stats().sample("thr tkind=lambda body=empty arg members reps jitterseed: " + vf::serialize(c), 3);
		});
	}();
	// (4) every interleaving at the hand-over points for small scenarios
	[&]() {
		std::vector<vf::Op> cfgs;
		for (int b = 0; b < 2; b++) {
			cfgs.push_back(vf::Op("hand", {0, b, 0, 0, 200000})); // subclassed thread, empty / storing body
			cfgs.push_back(vf::Op("hand", {1, b, 0, 0, 200000})); // lambda thread
			cfgs.push_back(vf::Op("hand", {2, b, 0, 0, 200000})); // parallel_invoke(2)
			cfgs.push_back(vf::Op("hand", {4, b, 0, 0, 200000})); // ThreadGroup(1)
			cfgs.push_back(vf::Op("hand", {4, b, 1, 0, 200000})); // ThreadGroup(2)
			cfgs.push_back(vf::Op("hand", {5, b, 0, 0, 200000})); // subclassed thread, two rounds
			cfgs.push_back(vf::Op("hand", {6, b, 0, 0, 200000})); // ThreadGroup(1), two rounds
			if (!a.quick())
				cfgs.push_back(vf::Op("hand", {6, b, 1, 0, 200000})); // ThreadGroup(2), two rounds (43264 interleavings)
		}
		for (int r = 0; r < 3; r++)
			for (int len = 0; len < 3; len++)
				for (int nth = 0; nth < 2; nth++)
					cfgs.push_back(vf::Op("hand", {3, r, len, nth, 200000})); // parallel_for small
		for (size_t i = 0; i < cfgs.size(); i++) {
			if ((int)(i % a.workers) != a.worker)
				continue;
			vf::Case c;
			c.add(cfgs[i]);
			if (!vf::runner().run("handover", c))
				return;
			vf::stats().nt_counted(g_dfs.schedules);
			vf::stats().part(vf::str("handover.cfg", i, ".", vf::serialize(c).substr(0, 20)), g_dfs.schedules, g_dfs.complete);
			if (i == 1)
				vf::stats().sample(vf::str("all ", g_dfs.schedules, " interleavings at the hand-over points of: ", vf::serialize(c)));
		}
	}();
	// (4b) fire-and-forget series: one as long as the mapping limit allows in worker 0, short ones in the others
	[&]() {
		vf::Case c;
		c.add(vf::Op("many", {a.worker == 0 ? 0 : 300 + 50 * a.worker}));
		if (vf::runner().run("many", c))
			vf::stats().nt(vf::fnv(vf::serialize(c)));
	}();
	// (5) Semaphore / Condition scripts
	[&]() {
		auto g = gen::map(gen::tuple(gen::element(std::string("sem"), std::string("cond"), std::string("condflag"), std::string("semt"), std::string("semsig"), std::string("condlate")), vf::irange<int>(0, 7), vf::irange<int>(0, 3), vf::irange<int>(0, 49), vf::irange<int>(0, 1000)),
		                  [](const std::tuple<std::string, int, int, int, int>& t) {
			                  vf::Case c;
			                  c.add(vf::Op(std::get<0>(t), {std::get<1>(t), std::get<2>(t), std::get<3>(t), std::get<4>(t)}));
			                  return c;
		                  });
		vf::check_cases("sync", a.n(100, 1200), 100, g, [](const vf::Case& c) {
			vf::stats().nt(vf::fnv(vf::serialize(c)));
			vf::stats().cls("sync." + c.ops[0].name);
		});
	}();
}
