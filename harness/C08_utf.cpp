// C08 -- UTF-8/16/32 conversions are lossless on valid text and safe on any bytes.
//
// ops (one per line, see common/vf.h):
//   sc <cp>                 one scalar value (any integer is reduced to a non-zero scalar): full battery + fromCode, count()==1
//   tx <cp> <cp> ...        a well-formed text given by its scalar values: full battery
//   by | <hex>              an arbitrary NUL-free byte string (cut at the first 00): totality, bounds, length rules;
//                           the full battery when the independent decoder says it is well-formed
//   nc <cp>.. -1 <cp>..     two well-formed texts: a.equalsNocase(b) == (a.toLowerCase() == b.toLowerCase())
//   nb | <hexA> <hexB>      two arbitrary byte strings (well- or ill-formed): equalsNocase both ways terminates in bounds and
//                           a.equalsNocase(b) == (a.toLowerCase() == b.toLowerCase()).  The relation is asserted for EVERY pair:
//                           the unchanged tree satisfies it on all 2.1 M pairs of the 1464 strings of length <= 3 over
//                           {41 61 7A C2 C3 E0 F0 80 A0 C0 FF} (truncated sequences read as code 0 on both sides).  The
//                           analogous relation with toUpperCase is NOT asserted: the unchanged tree breaks it on well-formed
//                           text (204 pairs below 1443, e.g. "I".equalsNocase(U+0130) is true but the upper-cased forms differ;
//                           "s" vs U+017F: not equal, same upper-cased form) and the property states it for lower case only.
//   w16 <u> <u> ...         UTF-16 code units (reduced to 1..FFFF, one per 32-bit wchar_t): utf16toUtf8 / String(const wchar_t*) /
//                           String(Array<wchar_t>) terminate in bounds; the standard UTF-8 when the units are well-formed UTF-16
//   pf <n> <cp> <cp> ...    counted conversions with a BINDING count: the first n (reduced to 1..len) of the given scalars through
//                           utf32toUtf8 / utf8toUtf32 / utf8toUtf16 / utf16toUtf8 (count = code points to convert, in all four),
//                           from a longer 0-terminated source and from an exactly-sized UNTERMINATED source; single elements
// Memory oracle: ASan. C-string / wide / code-point inputs and all outputs live in exact-size malloc blocks; String
// receivers are allocated with new (inline storage = last 16 bytes of the 24-byte object) and are tested as they are,
// prefixed with ASCII to 15 bytes (terminator = last byte of the object) and to 19 bytes (heap buffer of exactly 20).
#include "common/vfrc.h"
#include "common/ref_utf.h"
#include "common/ref_codec.h"
#include <asl/String.h>
#include <asl/Array.h>
#include <cctype>
#include <cwchar>
#include <memory>

using namespace asl;

const char* vf_harness_name() { return "C08_utf"; }

static std::string S(const String& s) { return std::string(*s, (size_t)s.length()); }

// exact-size heap block of n elements, pre-filled with a non-zero pattern (a missing terminator stays visible)
template <class T>
struct Exact {
	T* p;
	size_t n;
	explicit Exact(size_t n_) : p((T*)malloc(n_ * sizeof(T))), n(n_) { memset(p, 0x5a, n * sizeof(T)); }
	~Exact() { free(p); }
	Exact(const Exact&) = delete;
};

static uint32_t to_scalar(long long v)
{
	if (v >= 1 && v <= 0x10FFFF && ref::is_scalar((uint32_t)v))
		return (uint32_t)v;
	return ref::nth_scalar((uint64_t)(v < 0 ? -(v + 1) : v));
}

static std::string cut_nul(const std::string& s)
{
	size_t p = s.find('\0');
	return p == std::string::npos ? s : s.substr(0, p);
}

static std::string showcps(const std::vector<uint32_t>& c)
{
	std::string r = "[";
	for (size_t i = 0; i < c.size() && i < 12; i++) {
		char b[16];
		snprintf(b, sizeof b, "%sU+%04X", i ? " " : "", c[i]);
		r += b;
	}
	if (c.size() > 12)
		r += " ...(" + std::to_string(c.size()) + ")";
	return r + "]";
}

struct Info {
	std::string s; // NUL-free bytes
	bool valid = false, ascii = true;
	std::vector<uint32_t> cps;
	std::vector<uint16_t> w16;
	explicit Info(const std::string& bytes) : s(bytes)
	{
		valid = ref::utf8_decode(s, &cps);
		if (!valid)
			cps.clear();
		w16 = ref::utf16(cps);
		for (unsigned char c : s)
			if (c >= 0x80)
				ascii = false;
	}
};

// ---------------------------------------------------------------------------------------------
// the free conversion functions on exact-size blocks

static void check_free_functions(const Info& in)
{
	const std::string& s = in.s;
	int n = (int)s.size();
	Exact<char> c(n + 1);
	memcpy(c.p, s.data(), n);
	c.p[n] = 0;

	// UTF-8 -> UTF-32 (output sized like String::chars(): one int per byte + terminator)
	Exact<int> o32(n + 1);
	int k = utf8toUtf32(c.p, o32.p, n);
	VF_CHECK(k >= 0 && k <= n, "utf8toUtf32(", vf::show(s), ") returned ", k, " for ", n, " bytes");
	VF_CHECK(o32.p[k] == 0, "utf8toUtf32(", vf::show(s), "): no terminator at index ", k);
	if (in.valid) {
		VF_CHECK(k == (int)in.cps.size(), "utf8toUtf32(", vf::show(s), ") produced ", k, " code points, want ", in.cps.size());
		for (int i = 0; i < k; i++)
			VF_CHECK((uint32_t)o32.p[i] == in.cps[i], "utf8toUtf32(", vf::show(s), ")[", i, "] = ", o32.p[i], ", want ", in.cps[i]);
		if (k > 0) { // with the exact character count as limit and an output of exactly k+1 ints
			Exact<int> ox(k + 1);
			int k2 = utf8toUtf32(c.p, ox.p, k);
			VF_CHECK(k2 == k && ox.p[k] == 0 && memcmp(ox.p, o32.p, k * sizeof(int)) == 0, "utf8toUtf32(", vf::show(s), ", n=count) differs");
		}
	}

	// UTF-32 -> UTF-8: the reference code points on valid text, otherwise whatever the decoder produced
	{
		int m = k;
		Exact<int> i32(m + 1);
		for (int i = 0; i < m; i++)
			i32.p[i] = in.valid ? (int)in.cps[i] : o32.p[i];
		i32.p[m] = 0;
		Exact<char> o8(4 * m + 1);
		int r = utf32toUtf8(i32.p, o8.p, m);
		VF_CHECK(r >= 0 && r <= 4 * m, "utf32toUtf8 returned ", r, " for ", m, " code points");
		VF_CHECK(o8.p[r] == 0, "utf32toUtf8: no terminator at ", r);
		if (in.valid)
			VF_CHECK(std::string(o8.p, r) == s, "utf32toUtf8(", showcps(in.cps), ") = ", vf::show(std::string(o8.p, r)), ", standard encoding is ", vf::show(s));
	}

	// UTF-8 -> UTF-16 (one unit per byte + terminator, as utf8ToLocal()/dataw() size it)
	Exact<wchar_t> o16(n + 1);
	int kw = utf8toUtf16(c.p, o16.p, n);
	VF_CHECK(kw >= 0 && kw <= n, "utf8toUtf16(", vf::show(s), ") returned ", kw, " for ", n, " bytes");
	VF_CHECK(o16.p[kw] == 0, "utf8toUtf16(", vf::show(s), "): no terminator at index ", kw);
	if (in.valid) {
		VF_CHECK(kw == (int)in.w16.size(), "utf8toUtf16(", vf::show(s), ") produced ", kw, " units, want ", in.w16.size());
		for (int i = 0; i < kw; i++)
			VF_CHECK((uint32_t)o16.p[i] == in.w16[i], "utf8toUtf16(", vf::show(s), ")[", i, "] = ", (long)o16.p[i], ", want ", in.w16[i]);
	}
	// UTF-16 -> UTF-8 of those units, placed flush in their own block (4 bytes per unit + 1, as String(const wchar_t*) sizes it)
	{
		Exact<wchar_t> w(kw + 1);
		memcpy(w.p, o16.p, (kw + 1) * sizeof(wchar_t));
		Exact<char> o8(4 * kw + 1);
		int r = utf16toUtf8(w.p, o8.p, kw);
		VF_CHECK(r >= 0 && r <= 4 * kw, "utf16toUtf8 returned ", r, " for ", kw, " units");
		VF_CHECK(o8.p[r] == 0, "utf16toUtf8: no terminator at ", r);
		if (in.valid)
			VF_CHECK(std::string(o8.p, r) == s, "utf16toUtf8(utf8toUtf16(", vf::show(s), ")) = ", vf::show(std::string(o8.p, r)));
	}
}

// ---------------------------------------------------------------------------------------------
// String methods

static void check_nocase_pair(const String& a, const String& b)
{
	bool e1 = a.equalsNocase(b), e2 = b.equalsNocase(a);
	String la = a.toLowerCase(), lb = b.toLowerCase();
	bool l = la.length() == lb.length() && memcmp(*la, *lb, (size_t)la.length()) == 0;
	VF_CHECK(e1 == l, vf::show(S(a)), ".equalsNocase(", vf::show(S(b)), ") = ", e1, " but lower-cased forms ", vf::show(S(la)), " and ",
	         vf::show(S(lb)), l ? " are equal" : " differ");
	VF_CHECK(e2 == l, vf::show(S(b)), ".equalsNocase(", vf::show(S(a)), ") = ", e2, " but lower-cased forms ", l ? "are equal" : "differ");
}

static void check_case_result(const char* what, const std::string& t, const String& r, bool ascii, int (*cmap)(int))
{
	VF_CHECK(r.length() >= 0 && r.length() <= (int)t.size(), what, "(", vf::show(t), ") has ", r.length(), " bytes, input has ", t.size());
	VF_CHECK((*r)[r.length()] == 0, what, "(", vf::show(t), "): result not terminated at its length");
	if (ascii) {
		std::string want = t;
		for (auto& ch : want)
			ch = (char)cmap((unsigned char)ch);
		VF_CHECK(S(r) == want, what, "(", vf::show(t), ") = ", vf::show(S(r)), ", C locale gives ", vf::show(want));
	}
}

static void check_string_methods(const Info& in, int pad)
{
	std::string t = std::string((size_t)pad, 'a') + in.s;
	int n = (int)t.size();
	std::vector<uint32_t> cps(pad, (uint32_t)'a');
	cps.insert(cps.end(), in.cps.begin(), in.cps.end());
	std::unique_ptr<String> P(new String(t.c_str()));
	const String& str = *P;
	VF_CHECK(str.length() == n, "String(const char*) length");

	int cnt = str.count();
	VF_CHECK(cnt >= 0 && cnt <= n, "count() of ", vf::show(t), " = ", cnt, " for ", n, " bytes");
	if (in.valid)
		VF_CHECK(cnt == (int)cps.size(), "count() of ", vf::show(t), " = ", cnt, ", want ", cps.size());

	{
		Array<int> ch = str.chars();
		VF_CHECK(ch.length() >= 0 && ch.length() <= n, "chars() of ", vf::show(t), " has ", ch.length(), " elements");
		if (in.valid) {
			VF_CHECK(ch.length() == (int)cps.size(), "chars() of ", vf::show(t), " has ", ch.length(), " elements, want ", cps.size());
			for (int i = 0; i < ch.length(); i++)
				VF_CHECK((uint32_t)ch[i] == cps[i], "chars() of ", vf::show(t), " [", i, "] = ", ch[i], ", want ", cps[i]);
		}
	}
	{
		int steps = 0;
		bool same = true;
		for (int code : str) {
			if (in.valid && (steps >= (int)cps.size() || (uint32_t)code != cps[steps]))
				same = false;
			if (++steps > n)
				break;
		}
		VF_CHECK(steps <= n, "iteration over ", vf::show(t), " takes more steps than there are bytes");
		if (in.valid)
			VF_CHECK(same && steps == (int)cps.size(), "iteration over ", vf::show(t), " yields ", steps, " code points / other values than ", showcps(cps));
	}
	{
		String up = str.toUpperCase();
		check_case_result("toUpperCase", t, up, in.ascii, toupper);
		String lo = str.toLowerCase();
		check_case_result("toLowerCase", t, lo, in.ascii, tolower);
	}
	{
		std::unique_ptr<String> same(new String(t.c_str()));
		VF_CHECK(str.equalsNocase(*same), vf::show(t), ".equalsNocase(itself) is false"); // (equal lower-cased forms trivially)
		if (n > 0) { // neighbour 1: the last byte removed (cuts a trailing multi-byte sequence short)
			std::string t1 = t.substr(0, n - 1);
			std::unique_ptr<String> n1(new String(t1.c_str()));
			check_nocase_pair(str, *n1);
		}
		std::string t2 = t; // neighbour 2: ASCII letters with their case flipped
		for (auto& chr : t2)
			if (isalpha((unsigned char)chr) && (unsigned char)chr < 0x80)
				chr ^= 0x20;
		if (t2 != t) {
			std::unique_ptr<String> n2(new String(t2.c_str()));
			check_nocase_pair(str, *n2);
		}
		// neighbour 3: a trailing lead byte (sequence cut by the end of the string) replaced by a lead byte of another width
		if (n > 0 && (unsigned char)t[n - 1] >= 0xC0) {
			std::string t3 = t;
			unsigned char b = (unsigned char)t[n - 1];
			t3[n - 1] = (char)(b >= 0xF0 ? 0xC2 : b >= 0xE0 ? 0xF1 : 0xE1);
			std::unique_ptr<String> n3(new String(t3.c_str()));
			check_nocase_pair(str, *n3);
		}
	}
	{ // wide view: the UTF-16 scratch area inside the String's own buffer
		std::vector<uint16_t> w16 = ref::utf16(cps);
		String w(str);
		const wchar_t* p = w.dataw();
		int wl = 0;
		while (p[wl] != 0 && wl <= n)
			wl++;
		VF_CHECK(wl <= n, "dataw() of ", vf::show(t), " has more units than the string has bytes");
		String w2(str);
		int wlen = w2.wlength();
		VF_CHECK(wlen == wl, "wlength() ", wlen, " != units of dataw() ", wl);
		if (in.valid) {
			VF_CHECK(wl == (int)w16.size(), "dataw() of ", vf::show(t), " has ", wl, " units, want ", w16.size());
			for (int i = 0; i < wl; i++)
				VF_CHECK((uint32_t)p[i] == w16[i], "dataw() of ", vf::show(t), " [", i, "] = ", (long)p[i], ", want ", w16[i]);
			VF_CHECK(S(w) == t && w.length() == n, "dataw() changed the string");
		}
		String back(p);
		VF_CHECK(back.length() >= 0 && back.length() <= 4 * wl, "String(const wchar_t*) length");
		if (in.valid)
			VF_CHECK(S(back) == t, "String(dataw() of ", vf::show(t), ") = ", vf::show(S(back)));
		// a second expansion in the already enlarged buffer
		VF_CHECK(w.wlength() == wl, "second wlength() on the same String differs");
		if (in.valid) { // and back in place (what SafeString(s) without a size does)
			w.fixW();
			VF_CHECK(S(w) == t, "dataw() then fixW() of ", vf::show(t), " = ", vf::show(S(w)));
		}
	}
}

// constructors / helpers that only make sense on well-formed text
static void check_valid_extras(const Info& in)
{
	const std::string& s = in.s;
	{
		Array<int> codes((int)in.cps.size());
		for (int i = 0; i < codes.length(); i++)
			codes[i] = (int)in.cps[i];
		String f = String::fromCodes(codes);
		VF_CHECK(S(f) == s && (*f)[f.length()] == 0, "fromCodes(", showcps(in.cps), ") = ", vf::show(S(f)), ", want ", vf::show(s));
	}
	{
		Array<wchar_t> wa((int)in.w16.size());
		for (int i = 0; i < wa.length(); i++)
			wa[i] = (wchar_t)in.w16[i];
		String f(wa);
		VF_CHECK(S(f) == s && (*f)[f.length()] == 0, "String(Array<wchar_t> of ", vf::show(s), ") = ", vf::show(S(f)));
	}
	{ // SafeString / fixW: an API writes U+1 wide units (text + terminator) into the scratch area, fixW converts back
		int U = (int)in.w16.size();
		String t;
		{
			SafeString ss(t, U + 1);
			wchar_t* p = ss;
			for (int i = 0; i < U; i++)
				p[i] = (wchar_t)in.w16[i];
			p[U] = 0;
		}
		VF_CHECK(S(t) == s, "SafeString/fixW round trip of ", vf::show(s), " = ", vf::show(S(t)));
	}
}

static void check_all(const std::string& bytes, bool heapPlacement = true)
{
	Info in(bytes);
	check_free_functions(in);
	int n = (int)in.s.size();
	check_string_methods(in, 0);
	// the inline-flush placement adds nothing on well-formed input (same code, no truncated sequence to run over)
	if (n < 15 && !in.valid)
		check_string_methods(in, 15 - n);
	if (n < 19 && heapPlacement)
		check_string_methods(in, 19 - n);
	if (in.valid)
		check_valid_extras(in);
}

static void op_sc(const vf::Op& o)
{
	uint32_t cp = to_scalar(o.i(0, 1));
	std::string s;
	ref::utf8_append(s, cp);
	String f = String::fromCode((int)cp);
	VF_CHECK(S(f) == s, "fromCode(", cp, ") = ", vf::show(S(f)), ", standard encoding is ", vf::show(s));
	VF_CHECK((*f)[f.length()] == 0, "fromCode(", cp, ") not terminated");
	VF_CHECK(f.count() == 1, "fromCode(", cp, ").count() = ", f.count());
	Array<int> ch = f.chars();
	VF_CHECK(ch.length() == 1 && (uint32_t)ch[0] == cp, "fromCode(", cp, ").chars()");
	// the String methods are run on the bare scalar for every scalar; the second placement (ASCII-prefixed into an exact
	// 20-byte heap buffer; same library code, other allocation geometry) for all 1- and 2-byte scalars, every 4th of the
	// others and the neighbourhoods of the width / surrogate / range boundaries
	bool heap = cp < 0x800 || cp % 4 == 0;
	for (uint32_t b : {0x800u, 0xD7FFu, 0xE000u, 0xFFFFu, 0x10000u, 0x10FFFFu})
		if (cp + 2 >= b && cp <= b + 2)
			heap = true;
	check_all(s, heap);
}

static std::vector<uint32_t> cps_of(const std::vector<long long>& a, size_t from, size_t to)
{
	std::vector<uint32_t> c;
	for (size_t i = from; i < to && i < a.size(); i++)
		if (a[i] != -1)
			c.push_back(to_scalar(a[i]));
	return c;
}

static void op_nc(const vf::Op& o, bool padded)
{
	size_t sep = 0;
	while (sep < o.a.size() && o.a[sep] != -1)
		sep++;
	std::string a = ref::utf8(cps_of(o.a, 0, sep)), b = ref::utf8(cps_of(o.a, sep + 1, o.a.size()));
	std::unique_ptr<String> A(new String(a.c_str())), B(new String(b.c_str()));
	check_nocase_pair(*A, *B);
	// the same pair behind a common prefix that moves both into exact heap buffers
	if (padded && (a.size() < 19 || b.size() < 19)) {
		std::string pa = std::string(a.size() < 19 ? 19 - a.size() : 0, 'Q') + a, pb = std::string(a.size() < 19 ? 19 - a.size() : 0, 'q') + b;
		std::unique_ptr<String> PA(new String(pa.c_str())), PB(new String(pb.c_str()));
		check_nocase_pair(*PA, *PB);
	}
}

static void op_nb(const vf::Op& o, bool padded)
{
	std::string a = cut_nul(o.str(0)), b = cut_nul(o.str(1));
	for (int pad : {0, 15, 19}) {
		if (pad && !padded)
			break;
		// the same number of prefix characters on both sides (the pair stays aligned): the shorter one reaches `pad` bytes
		int shorter = (int)std::min(a.size(), b.size()), k = pad > shorter ? pad - shorter : 0;
		if (pad && k == 0)
			continue;
		std::string pa = std::string((size_t)k, 'a') + a, pb = std::string((size_t)k, 'A') + b;
		std::unique_ptr<String> A(new String(pa.c_str())), B(new String(pb.c_str()));
		check_nocase_pair(*A, *B);
	}
}

// The count parameter of the four free functions is decremented once per converted code point (loop iteration) and the loop
// stops when it reaches zero, before the next source element is read; so for n >= 1 and a source whose first n code points are
// non-zero scalars the function converts exactly these, reads nothing behind them, writes their standard encoding plus a
// terminator and returns the number of output units.  `exact`: the source block holds the n code points only (no terminator,
// the allocation ends there); otherwise it holds everything from `from` to the end of `all` plus a terminator.
static void check_counted(const std::vector<uint32_t>& all, size_t from, size_t n, bool exact)
{
	std::vector<uint32_t> want(all.begin() + from, all.begin() + from + n);
	std::vector<uint32_t> avail = exact ? want : std::vector<uint32_t>(all.begin() + from, all.end());
	std::string w8 = ref::utf8(want), a8 = ref::utf8(avail);
	std::vector<uint16_t> w16 = ref::utf16(want), a16 = ref::utf16(avail);
	size_t term = exact ? 0 : 1;
	auto ctx = [&]() {
		return vf::str(showcps(all), " from ", from, " n=", n, exact ? " (exactly-sized unterminated source)" : " (longer 0-terminated source)");
	};
	{
		Exact<int> src(avail.size() + term);
		for (size_t i = 0; i < avail.size(); i++)
			src.p[i] = (int)avail[i];
		if (term)
			src.p[avail.size()] = 0;
		Exact<char> out(4 * n + 1);
		int r = utf32toUtf8(src.p, out.p, (int)n);
		VF_CHECK(r == (int)w8.size(), "utf32toUtf8 returned ", r, ", the first n code points take ", w8.size(), " bytes: ", ctx());
		VF_CHECK(out.p[r] == 0 && memcmp(out.p, w8.data(), w8.size()) == 0, "utf32toUtf8 wrote ", vf::show(std::string(out.p, r)), ", want ", vf::show(w8), ": ", ctx());
	}
	{
		Exact<char> src(a8.size() + term);
		memcpy(src.p, a8.data(), a8.size());
		if (term)
			src.p[a8.size()] = 0;
		{
			Exact<int> out(n + 1);
			int r = utf8toUtf32(src.p, out.p, (int)n);
			VF_CHECK(r == (int)n && out.p[n] == 0, "utf8toUtf32 returned ", r, " / no terminator at n: ", ctx());
			for (size_t i = 0; i < n; i++)
				VF_CHECK((uint32_t)out.p[i] == want[i], "utf8toUtf32 [", i, "] = ", out.p[i], ", want ", want[i], ": ", ctx());
		}
		{
			Exact<wchar_t> out(2 * n + 1);
			int r = utf8toUtf16(src.p, out.p, (int)n);
			VF_CHECK(r == (int)w16.size() && out.p[r] == 0, "utf8toUtf16 returned ", r, ", the first n code points take ", w16.size(), " units / no terminator: ", ctx());
			for (size_t i = 0; i < w16.size(); i++)
				VF_CHECK((uint32_t)out.p[i] == w16[i], "utf8toUtf16 [", i, "] = ", (long)out.p[i], ", want ", w16[i], ": ", ctx());
		}
	}
	{
		Exact<wchar_t> src(a16.size() + term);
		for (size_t i = 0; i < a16.size(); i++)
			src.p[i] = (wchar_t)a16[i];
		if (term)
			src.p[a16.size()] = 0;
		Exact<char> out(4 * n + 1);
		int r = utf16toUtf8(src.p, out.p, (int)n);
		VF_CHECK(r == (int)w8.size(), "utf16toUtf8 returned ", r, ", the first n code points take ", w8.size(), " bytes: ", ctx());
		VF_CHECK(out.p[r] == 0 && memcmp(out.p, w8.data(), w8.size()) == 0, "utf16toUtf8 wrote ", vf::show(std::string(out.p, r)), ", want ", vf::show(w8), ": ", ctx());
	}
}

static size_t pf_count(const vf::Op& o, size_t len)
{
	long long v = o.i(0, 1);
	if (v >= 1 && (size_t)v <= len)
		return (size_t)v;
	return 1 + (size_t)((v < 0 ? -(v + 1) : v) % (long long)len);
}

static void op_pf(const vf::Op& o)
{
	std::vector<uint32_t> all = cps_of(o.a, 1, o.a.size());
	size_t len = all.size();
	if (len == 0)
		return;
	size_t n = pf_count(o, len);
	check_counted(all, 0, n, false);
	check_counted(all, 0, n, true);
	// one element at a time (as a caller converting piecewise does): followed by more elements, and alone in its block
	for (size_t i = 0; i < len; i++) {
		if (len > 16 && !(i == 0 || i + 2 == n || i + 1 == n || i == n || i + 1 == len))
			continue;
		check_counted(all, i, 1, false);
		check_counted(all, i, 1, true);
	}
}

static void op_w16(const vf::Op& o)
{
	std::vector<uint16_t> u;
	for (long long v : o.a) {
		uint16_t x = (uint16_t)((v < 0 ? -(v + 1) : v) & 0xFFFF);
		if (x == 0)
			break; // 0 is the terminator
		u.push_back(x);
	}
	int k = (int)u.size();
	std::vector<uint32_t> cps;
	bool wf = ref::utf16_decode(u, cps);
	std::string want = ref::utf8(cps);
	Exact<wchar_t> w(k + 1);
	for (int i = 0; i < k; i++)
		w.p[i] = (wchar_t)u[i];
	w.p[k] = 0;
	{
		Exact<char> o8(4 * k + 1);
		int r = utf16toUtf8(w.p, o8.p, k);
		VF_CHECK(r >= 0 && r <= 4 * k, "utf16toUtf8 returned ", r, " for ", k, " units");
		VF_CHECK(o8.p[r] == 0, "utf16toUtf8: no terminator at ", r);
		if (wf)
			VF_CHECK(std::string(o8.p, r) == want, "utf16toUtf8 of well-formed units = ", vf::show(std::string(o8.p, r)), ", want ", vf::show(want));
	}
	{
		String s(w.p);
		VF_CHECK(s.length() >= 0 && s.length() <= 4 * k && (*s)[s.length()] == 0, "String(const wchar_t*) length ", s.length(), " for ", k, " units");
		if (wf)
			VF_CHECK(S(s) == want, "String(const wchar_t*) of well-formed units = ", vf::show(S(s)), ", want ", vf::show(want));
	}
	{
		Array<wchar_t> wa(k);
		for (int i = 0; i < k; i++)
			wa[i] = (wchar_t)u[i];
		String s(wa);
		VF_CHECK(s.length() >= 0 && s.length() <= 4 * k && (*s)[s.length()] == 0, "String(Array<wchar_t>) length ", s.length(), " for ", k, " units");
		if (wf)
			VF_CHECK(S(s) == want, "String(Array<wchar_t>) of well-formed units = ", vf::show(S(s)), ", want ", vf::show(want));
	}
}

void vf_run_case(const std::string& part, const vf::Case& c)
{
	for (auto& o : c.ops) {
		if (o.name == "sc")
			op_sc(o);
		else if (o.name == "tx")
			check_all(ref::utf8(cps_of(o.a, 0, o.a.size())));
		else if (o.name == "by")
			check_all(cut_nul(o.str(0)));
		else if (o.name == "nc")
			op_nc(o, part != "nocase_pairs");
		else if (o.name == "nb")
			op_nb(o, part != "nocase_bytes_pairs");
		else if (o.name == "w16")
			op_w16(o);
		else if (o.name == "pf")
			op_pf(o);
	}
}

// ---------------------------------------------------------------------------------------------
// search

// class of a byte string by the independent decoder (also decides non-triviality)
static const char* classify_bytes(const std::string& s, bool* nontrivial)
{
	char why = 0;
	bool ascii = true;
	for (unsigned char ch : s)
		if (ch >= 0x80)
			ascii = false;
	if (ref::utf8_decode(s, 0, &why)) {
		*nontrivial = !ascii;
		return ascii ? "ascii" : "valid_nonascii";
	}
	*nontrivial = why == 't' || why == 'o';
	if (why == 't') {
		// is the cut made by the end of the string?
		size_t n = s.size();
		for (size_t back = 1; back <= 3 && back <= n; back++) {
			unsigned char b = s[n - back];
			if (b >= 0xC0) {
				size_t need = b >= 0xF0 ? 4 : b >= 0xE0 ? 3 : 2;
				if (need > back)
					return need == 2 ? "ill.truncated_at_end.2byte" : need == 3 ? "ill.truncated_at_end.3byte" : "ill.truncated_at_end.4byte";
				break;
			}
			if (b < 0x80)
				break;
		}
		return "ill.truncated_inside";
	}
	return why == 'o' ? "ill.overlong_or_surrogate" : "ill.bad_lead";
}

struct Enum {
	vf::Case c;
	uint64_t ran = 0, nt = 0;
	std::string part;
	bool ok = true;
	std::map<const char*, uint64_t> classes; // keyed by the literal's address, flushed into the statistics at the end
	explicit Enum(const std::string& p, const char* opname) : part(p) { c.ops.push_back(vf::Op(opname)); }
	~Enum()
	{
		for (auto& kv : classes)
			vf::stats().cls(part + "." + kv.first, kv.second);
	}
	bool bytes(const std::string& s, uint64_t sampleEvery)
	{
		c.ops[0].s.assign(1, s);
		if (!vf::runner().run(part, c))
			return ok = false;
		ran++;
		bool n;
		const char* cl = classify_bytes(s, &n);
		classes[cl]++;
		if (n) {
			nt++;
			if (nt % sampleEvery == 1)
				vf::stats().sample(part + ": by " + vf::show(s) + " (" + cl + ")");
		}
		return true;
	}
	bool ints(std::initializer_list<long long> v)
	{
		c.ops[0].a.assign(v);
		if (!vf::runner().run(part, c))
			return ok = false;
		ran++;
		return true;
	}
};

static const uint32_t BOUNDARY[] = {0x01,   0x41,   0x7E,   0x7F,    0x80,    0x81,    0xFF,     0x100,    0x586,  0x587, 0x588,
                                    0x5A2,  0x5A3,  0x7FE,  0x7FF,   0x800,   0x801,   0xD7FF,   0xE000,   0xFFFD, 0xFFFE, 0xFFFF,
                                    0x10000, 0x10001, 0x3FFFF, 0x40000, 0xFFFFF, 0x100000, 0x10FFFE, 0x10FFFF};
static const int NB = sizeof(BOUNDARY) / sizeof(BOUNDARY[0]);

static rc::Gen<long long> gen_scalar()
{
	using namespace rc;
	return gen::oneOf(gen::map(vf::irange<int>(1, 0x7F), [](int v) { return (long long)v; }),
	                  gen::map(vf::irange<int>(0x80, 0x7FF), [](int v) { return (long long)v; }),
	                  gen::map(vf::irange<int>(0x800, 0xFFFF), [](int v) { return (long long)(v >= 0xD800 && v <= 0xDFFF ? v - 0x1000 : v); }),
	                  gen::map(vf::irange<int>(0x10000, 0x10FFFF), [](int v) { return (long long)v; }),
	                  gen::map(gen::elementOf(std::vector<uint32_t>(BOUNDARY, BOUNDARY + NB)), [](uint32_t v) { return (long long)v; }),
	                  gen::map(vf::irange<int>(0x41, 1450), [](int v) { return (long long)v; }));
}

// one piece of an ill-formed string
static rc::Gen<std::string> gen_piece()
{
	using namespace rc;
	auto enc = gen::map(gen_scalar(), [](long long v) {
		std::string s;
		ref::utf8_append(s, to_scalar(v));
		return s;
	});
	return gen::oneOf(
	    enc, enc,
	    // a sequence cut short
	    gen::map(gen::pair(enc, vf::irange<int>(1, 3)), [](const std::pair<std::string, int>& p) { return p.first.substr(0, p.first.size() > 1 ? 1 + (p.second - 1) % (p.first.size() - 1) : 1); }),
	    // overlong forms, surrogates, beyond U+10FFFF, 5/6-byte leads
	    gen::elementOf(std::vector<std::string>{"\xC0\x80", "\xC1\xBF", "\xE0\x80\x80", "\xE0\x9F\xBF", "\xF0\x80\x80\x80", "\xF0\x8F\xBF\xBF", "\xED\xA0\x80", "\xED\xBF\xBF",
	                                            "\xF4\x90\x80\x80", "\xF7\xBF\xBF\xBF", "\xF8\x88\x80\x80\x80", "\xFC\x84\x80\x80\x80\x80", "\xFE", "\xFF"}),
	    // lone continuation / lead bytes
	    gen::map(vf::irange<int>(0x80, 0xFF), [](int v) { return std::string(1, (char)v); }),
	    gen::map(vf::irange<int>(1, 0xFF), [](int v) { return std::string(1, (char)v); }));
}

static rc::Gen<std::string> gen_ill(int maxBytes)
{
	using namespace rc;
	// pieces, then (often) a lead byte without its continuation at the very end
	return gen::map(gen::tuple(vf::boundary_len({3, 4, 14, 15, 16, 18, 19, 20, 23, 24}, maxBytes), gen::container<std::vector<std::string>>(gen_piece()),
	                           gen::elementOf(std::vector<std::string>{"", "", "\xC2", "\xDF", "\xE0", "\xE2\x82", "\xEF", "\xF0", "\xF0\x9F", "\xF4\x8F\xBF", "\x80", "\xC3"})),
	                [](const std::tuple<int, std::vector<std::string>, std::string>& t) {
		                std::string s;
		                size_t want = (size_t)std::get<0>(t);
		                const auto& pieces = std::get<1>(t);
		                const std::string& tail = std::get<2>(t);
		                for (size_t i = 0; s.size() + tail.size() < want; i++) {
			                if (pieces.empty())
				                s += 'x';
			                else
				                s += pieces[i % pieces.size()];
		                }
		                if (s.size() + tail.size() > want && want >= tail.size())
			                s.resize(want - tail.size()); // may cut the last piece short: one more truncation
		                return s + tail;
	                });
}

void vf_search(const vf::Args& a)
{
	using namespace rc;
	ref::SplitMix rng(a.seed * 1000 + a.worker);
	const uint64_t W = (uint64_t)a.workers, me = (uint64_t)a.worker;
	// wall-clock lap times go to the worker log only (tuning aid, never used for a decision)
	double t0 = vf::now();
	int lapno = 0;
	auto lap = [&]() {
		double t = vf::now();
		printf("[time] worker %d part %d: %.2fs\n", a.worker, ++lapno, t - t0);
		t0 = t;
	};

	// (0) the reference codec against the python-derived digests
	if (a.worker == 0) {
		std::string msg;
		if (!ref::utf_audit_ok(&msg)) {
			printf("INFRA reference UTF codec disagrees with the python codecs digests: %s\n", msg.c_str());
			exit(2);
		}
		vf::stats().cls("audit.reference_codec_matches_python_digests");
	}

	// (1) every scalar value
	[&]() {
		Enum e("scalar", "sc");
		uint64_t nt = 0;
		for (uint64_t k = me; k < ref::NSCALARS; k += W) {
			uint32_t cp = ref::nth_scalar(k);
			if (!e.ints({(long long)cp}))
				return;
			if (cp >= 0x80)
				nt++;
			if (cp == 0x20AC || cp == 0x1F600)
				vf::stats().sample("scalar: sc " + std::to_string(cp));
		}
		vf::stats().nt_counted(nt);
		vf::stats().part("scalar.all_1112063_nonzero_scalar_values", e.ran, true);
	}();
	lap();

	// (2) all ordered pairs and triples of boundary scalars; random pairs
	[&]() {
		Enum e("pairs", "tx");
		uint64_t idx = 0;
		for (int i = 0; i < NB; i++)
			for (int j = 0; j < NB; j++)
				if (idx++ % W == me)
					if (!e.ints({BOUNDARY[i], BOUNDARY[j]}))
						return;
		for (int i = 0; i < NB; i += 2)
			for (int j = 0; j < NB; j++)
				for (int k = 1; k < NB; k += 2)
					if (idx++ % W == me)
						if (!e.ints({BOUNDARY[i], BOUNDARY[j], BOUNDARY[k]}))
							return;
		vf::stats().nt_counted(e.ran);
		vf::stats().part("pairs.all_ordered_boundary_pairs_and_triples", e.ran, true);
		uint64_t before = e.ran;
		long nrand = a.n(12000, 50000) / (long)W + 1;
		for (long r = 0; r < nrand; r++) {
			// widths chosen first so that every width pair is equally likely
			auto pick = [&]() -> long long {
				switch (rng.below(4)) {
				case 0: return 1 + (long long)rng.below(0x7F);
				case 1: return 0x80 + (long long)rng.below(0x780);
				case 2: return to_scalar(0x800 + (long long)rng.below(0xF800));
				default: return 0x10000 + (long long)rng.below(0x100000);
				}
			};
			long long x = pick(), y = pick();
			if (!e.ints({x, y}))
				return;
			if (x >= 0x80 || y >= 0x80)
				vf::stats().nt(vf::fnv(vf::serialize(e.c)));
		}
		vf::stats().part("pairs.random", e.ran - before, false);
	}();
	lap();

	// (3a) every byte string of length <= 3 over 01..FF (quick: all of length <= 2, a seeded stride of length 3)
	[&]() {
		Enum e("bytes3", "by");
		uint64_t idx = 0;
		std::string s;
		for (int len = 1; len <= 2; len++) {
			uint64_t total = len == 1 ? 255 : 255 * 255;
			for (uint64_t k = 0; k < total; k++)
				if (idx++ % W == me) {
					s.assign(1, (char)(1 + k % 255));
					if (len == 2)
						s += (char)(1 + k / 255);
					if (!e.bytes(s, 4001))
						return;
				}
		}
		vf::stats().part("bytes3.all_byte_strings_len<=2", e.ran, true);
		uint64_t before = e.ran;
		const uint64_t step = a.quick() ? 32 : 1, off = a.quick() ? a.seed % 32 : 0, total = 255ULL * 255 * 255;
		uint64_t lim = total;
		if (a.scale < 1)
			lim = (uint64_t)(total * a.scale);
		for (uint64_t k = off; k < lim; k += step)
			if (idx++ % W == me) {
				s.assign(1, (char)(1 + k % 255));
				s += (char)(1 + k / 255 % 255);
				s += (char)(1 + k / (255 * 255));
				if (!e.bytes(s, 40009))
					return;
			}
		vf::stats().part(a.quick() ? "bytes3.len3_stride32_seeded_offset" : "bytes3.all_byte_strings_len3", e.ran - before, !a.quick() && a.scale >= 1);
		vf::stats().nt_counted(e.nt);
	}();
	lap();

	// (3b) every string of length <= 5 over the boundary alphabet
	[&]() {
		static const unsigned char AL[] = {0x7F, 0x80, 0xBF, 0xC0, 0xC2, 0xDF, 0xE0, 0xEF, 0xF0, 0xF4, 0xF7, 0xF8, 0xFF, 0x41, 0x61};
		const uint64_t A = sizeof AL;
		Enum e("alpha5", "by");
		uint64_t idx = 0;
		std::string s;
		for (int len = 1; len <= 5; len++) {
			uint64_t total = 1;
			for (int i = 0; i < len; i++)
				total *= A;
			for (uint64_t k = 0; k < total; k++)
				if (idx++ % W == me) {
					s.clear();
					uint64_t v = k;
					for (int i = 0; i < len; i++) {
						s += (char)AL[v % A];
						v /= A;
					}
					if (!e.bytes(s, 30011))
						return;
				}
		}
		// the empty string once
		if (me == 0)
			e.bytes("", 1);
		vf::stats().nt_counted(e.nt);
		vf::stats().part("alpha5.all_strings_len<=5_over_boundary_alphabet", e.ran, true);
	}();
	lap();

	// (3c) UTF-16 side: all unit strings of length <= 3 over boundary units (unpaired / swapped surrogates included), random ones
	[&]() {
		static const long long WU[] = {0x01, 0x41, 0x7F, 0x80, 0x7FF, 0x800, 0x20AC, 0xD7FF, 0xD800, 0xDBFF, 0xDC00, 0xDFFF, 0xE000, 0xFFFF};
		const int NW = sizeof WU / sizeof WU[0];
		Enum e("wide", "w16");
		uint64_t idx = 0, nt = 0;
		auto sur = [](long long v) { return v >= 0xD800 && v <= 0xDFFF; };
		for (int i = 0; i < NW; i++)
			if (idx++ % W == me) {
				if (!e.ints({WU[i]}))
					return;
				nt += sur(WU[i]);
			}
		for (int i = 0; i < NW; i++)
			for (int j = 0; j < NW; j++)
				if (idx++ % W == me) {
					if (!e.ints({WU[i], WU[j]}))
						return;
					nt += sur(WU[i]) || sur(WU[j]);
					if (i == 8 && j == 10)
						vf::stats().sample("wide: " + vf::serialize(e.c));
				}
		for (int i = 0; i < NW; i++)
			for (int j = 0; j < NW; j++)
				for (int k = 0; k < NW; k++)
					if (idx++ % W == me) {
						if (!e.ints({WU[i], WU[j], WU[k]}))
							return;
						nt += sur(WU[i]) || sur(WU[j]) || sur(WU[k]);
					}
		vf::stats().nt_counted(nt);
		vf::stats().part("wide.all_unit_strings_len<=3_over_14_boundary_units", e.ran, true);
		uint64_t before = e.ran;
		long nrand = a.n(8000, 60000) / (long)W + 1;
		for (long r = 0; r < nrand; r++) {
			e.c.ops[0].a.clear();
			size_t len = 1 + rng.below(12);
			bool s = false;
			for (size_t i = 0; i < len; i++) {
				uint64_t pick = rng.below(6);
				long long v = pick == 0 ? 0xD800 + (long long)rng.below(0x400) : pick == 1 ? 0xDC00 + (long long)rng.below(0x400) : pick == 2 ? 1 + (long long)rng.below(0x7F) : 1 + (long long)rng.below(0xFFFF);
				s = s || sur(v);
				e.c.ops[0].a.push_back(v);
			}
			if (!vf::runner().run(e.part, e.c))
				return;
			e.ran++;
			if (s)
				vf::stats().nt(vf::fnv(vf::serialize(e.c)));
		}
		vf::stats().part("wide.random", e.ran - before, false);
	}();

	// (3d) counted conversions with a binding count: every sequence of length <= 5 over two ASCII and one 2-, 3-, 4-byte scalar
	// with every count 1..len; generated longer sequences (half ASCII) with every/any count
	[&]() {
		static const long long PA[] = {0x41, 0x7A, 0xE9, 0x20AC, 0x1F600};
		const uint64_t A = sizeof PA / sizeof PA[0];
		Enum e("prefix", "pf");
		uint64_t idx = 0;
		for (int len = 1; len <= 5; len++) {
			uint64_t total = 1;
			for (int i = 0; i < len; i++)
				total *= A;
			for (uint64_t k = 0; k < total; k++)
				for (int n = 1; n <= len; n++)
					if (idx++ % W == me) {
						auto& v = e.c.ops[0].a;
						v.assign(1, n);
						uint64_t x = k;
						bool ascii_last = false, ascii_next = false, all_ascii = true;
						for (int i = 0; i < len; i++) {
							long long cp = PA[x % A];
							x /= A;
							v.push_back(cp);
							if (i == n - 1)
								ascii_last = cp < 0x80;
							if (i == n)
								ascii_next = cp < 0x80;
							if (cp >= 0x80)
								all_ascii = false;
						}
						if (!vf::runner().run(e.part, e.c))
							return;
						e.ran++;
						e.classes[n < len ? "count<len" : "count=len"]++;
						if (ascii_last && ascii_next)
							e.classes["ascii_run_across_count"]++;
						else if (ascii_last)
							e.classes["ascii_at_n-1_only"]++;
						else if (ascii_next)
							e.classes["ascii_at_n_only"]++;
						if (all_ascii)
							e.classes["ascii_only"]++;
						if (len == 4 && n == 2 && k == 187)
							vf::stats().sample("prefix: " + vf::serialize(e.c));
					}
		}
		vf::stats().nt_counted(e.ran);
		vf::stats().part("prefix.all_sequences_len<=5_over_5_scalars_x_every_count", e.ran, true);
		// generated: (count selector, scalars) with half of the scalars ASCII
		auto sc = gen::oneOf(gen::map(vf::irange<int>(1, 0x7F), [](int v) { return (long long)v; }), gen_scalar());
		int maxlen = a.quick() ? 60 : 300;
		auto g = gen::map(gen::tuple(vf::irange<int>(0, 1000000), vf::irange<int>(0, 5), gen::pair(vf::boundary_len({1, 2, 3, 8, 16, 17}, maxlen), gen::container<std::vector<long long>>(sc))),
		                  [](const std::tuple<int, int, std::pair<int, std::vector<long long>>>& t) {
			                  vf::Op o("pf");
			                  const auto& pool = std::get<2>(t).second;
			                  size_t len = (size_t)std::get<2>(t).first, m = pool.size();
			                  if (len == 0)
				                  len = 1;
			                  // count: anywhere, or (often) at the end / one before the end
			                  long long n = std::get<1>(t) == 0 ? (long long)len : std::get<1>(t) == 1 && len > 1 ? (long long)len - 1 : 1 + std::get<0>(t) % (long long)len;
			                  o.a.push_back(n);
			                  for (size_t i = 0; i < len; i++)
				                  o.a.push_back(m ? pool[(i + (i / m) * 3) % m] : 'x');
			                  vf::Case c;
			                  c.ops.push_back(o);
			                  return c;
		                  });
		vf::check_cases("prefix", a.n(4000, 12000), 100, g, [](const vf::Case& c) {
			const auto& o = c.ops[0];
			std::vector<uint32_t> all = cps_of(o.a, 1, o.a.size());
			size_t len = all.size(), n = pf_count(o, len);
			bool al = all[n - 1] < 0x80, an = n < len && all[n] < 0x80;
			vf::stats().cls(n < len ? "prefix.rc.count<len" : "prefix.rc.count=len");
			if (al && an)
				vf::stats().cls("prefix.rc.ascii_run_across_count");
			else if (al)
				vf::stats().cls("prefix.rc.ascii_at_n-1_only");
			else if (an)
				vf::stats().cls("prefix.rc.ascii_at_n_only");
			int widths = 0;
			for (auto x : all)
				widths |= 1 << ref::utf8_len(x);
			vf::stats().cls(widths == 2 ? "prefix.rc.ascii_only" : (widths & (widths - 1)) ? "prefix.rc.mixed_widths" : "prefix.rc.one_width_nonascii");
			if (len >= 2)
				vf::stats().nt(vf::fnv(vf::serialize(c)));
		});
	}();

	// (4) equalsNocase == equality of lower-cased forms: all pairs of code points below 1443 (the table size)
	[&]() {
		Enum e("nocase_pairs", "nc");
		uint64_t idx = 0, eq = 0;
		for (long long x = 1; x < 1443; x++)
			for (long long y = x; y < 1443; y++) // unordered: the check compares both directions
				if (idx++ % W == me) {
					if (!e.ints({x, -1, y}))
						return;
				}
		(void)eq;
		vf::stats().nt_counted(e.ran);
		vf::stats().part("nocase_pairs.all_unordered_pairs_of_code_points_below_1443_both_directions", e.ran, true);
	}();
	lap();

	// (4b) the same relation on ALL unordered pairs of the byte strings of length <= 3 over a small alphabet with ASCII letters,
	// 2/3/4-byte leads, continuation bytes (C3 80 / C3 A0 is a case pair; everything else is mostly ill-formed)
	[&]() {
		static const unsigned char AL[] = {0x41, 0x61, 0x7A, 0xC2, 0xC3, 0xE0, 0xF0, 0x80, 0xA0};
		const uint64_t A = sizeof AL;
		std::vector<std::string> strs(1, std::string());
		for (int len = 1; len <= 3; len++) {
			uint64_t total = 1;
			for (int i = 0; i < len; i++)
				total *= A;
			for (uint64_t k = 0; k < total; k++) {
				std::string s;
				uint64_t v = k;
				for (int i = 0; i < len; i++) {
					s += (char)AL[v % A];
					v /= A;
				}
				strs.push_back(s);
			}
		}
		Enum e("nocase_bytes_pairs", "nb");
		uint64_t idx = 0, nt = 0;
		for (size_t i = 0; i < strs.size(); i++)
			for (size_t j = i; j < strs.size(); j++)
				if (idx++ % W == me) {
					e.c.ops[0].s = {strs[i], strs[j]};
					if (!vf::runner().run(e.part, e.c))
						return;
					e.ran++;
					bool ill = !ref::utf8_decode(strs[i]) || !ref::utf8_decode(strs[j]);
					e.classes[ill ? "pair_with_illformed_string" : "pair_wellformed"]++;
					if (ill && i != j)
						nt++;
				}
		vf::stats().nt_counted(nt);
		vf::stats().part("nocase_bytes_pairs.all_unordered_pairs_of_820_strings_len<=3_over_9_bytes", e.ran, true);
	}();

	// (5) rapidcheck: well-formed texts of mixed widths
	[&]() {
		int maxn = a.quick() ? 600 : 2000;
		// (target length, pool of scalars): the text walks the pool with a changing stride, so both shrink (shorter text, fewer
		// and smaller scalars) while long texts stay cheap to generate
		auto g = gen::map(gen::pair(vf::boundary_len({1, 4, 5, 7, 8, 15, 16, 19, 20, 24, 64}, maxn), gen::container<std::vector<long long>>(gen_scalar())),
		                  [](const std::pair<int, std::vector<long long>>& p) {
			                  vf::Op o("tx");
			                  size_t m = p.second.size();
			                  for (size_t i = 0; i < (size_t)p.first; i++)
				                  o.a.push_back(m ? p.second[(i + (i / m) * 3) % m] : 'x');
			                  vf::Case c;
			                  c.ops.push_back(o);
			                  return c;
		                  });
		vf::check_cases("text", a.n(3000, 8000), 100, g, [](const vf::Case& c) {
			const auto& v = c.ops[0].a;
			int widths = 0;
			size_t bytes = 0;
			for (auto x : v) {
				int l = ref::utf8_len(to_scalar(x));
				widths |= 1 << l;
				bytes += l;
			}
			if (widths & ~2)
				vf::stats().nt(vf::fnv(vf::serialize(c)));
			vf::stats().cls(bytes < 15 ? "text.inline<15" : bytes == 15 ? "text.inline=15" : bytes < 19 ? "text.heap_slack(16..18)" : "text.heap_exact(>=19)");
			if (widths == (2 | 4 | 8 | 16))
				vf::stats().cls("text.all_four_widths");
			if (v.size() == 5)
				vf::stats().sample("text: " + vf::serialize(c), 10);
		});
	}();
	lap();

	// (6) rapidcheck: ill-formed strings flush against allocation ends
	[&]() {
		int maxb = 300;
		auto g = gen::map(gen_ill(maxb), [](const std::string& s) {
			vf::Op o("by");
			o.s.push_back(s);
			vf::Case c;
			c.ops.push_back(o);
			return c;
		});
		vf::check_cases("ill", a.n(6000, 20000), 100, g, [](const vf::Case& c) {
			std::string s = cut_nul(c.ops[0].str(0));
			bool n;
			const char* cl = classify_bytes(s, &n);
			if (n && cl[0] == 'i')
				vf::stats().nt(vf::fnv(s));
			vf::stats().cls(std::string("ill.") + cl);
			vf::stats().cls(s.size() < 15 ? "ill.len<15" : s.size() == 15 ? "ill.len=15(inline flush)" : s.size() < 19 ? "ill.len16..18" : "ill.len>=19(heap exact)");
			if (s.size() == 9)
				vf::stats().sample("ill: by " + vf::show(s) + " (" + cl + ")", 10);
		});
	}();
	lap();

	// (7) rapidcheck: case-insensitive comparison of related texts
	[&]() {
		// per character a pair (x, y): the same scalar / the two members of a usual case pair (ASCII, Latin-1, Latin Extended-A,
		// Greek, Cyrillic, Armenian: distances 32, 1, 80, 48) / a near miss / unrelated; lengths occasionally differ.
		// The families only steer generation towards pairs that are equal up to case; the oracle is the property's equivalence.
		typedef std::pair<long long, long long> PP;
		auto fam = [](int lo, int hi, int d) {
			return gen::map(gen::pair(vf::irange<int>(lo, hi), vf::irange<int>(0, 3)), [d](const std::pair<int, int>& p) {
				return p.second == 0 ? PP(p.first, p.first) : p.second == 1 ? PP(p.first + d, p.first) : PP(p.first, p.first + d);
			});
		};
		auto same = gen::map(gen_scalar(), [](long long v) { return PP(v, v); });
		auto lat = gen::map(gen::pair(vf::irange<int>(0x80, 0xBF), vf::irange<int>(0, 2)), [](const std::pair<int, int>& p) {
			long long e = 2 * p.first; // 0x100..0x17E even: mostly (upper, lower = upper + 1) pairs
			return p.second == 0 ? PP(e, e) : p.second == 1 ? PP(e, e + 1) : PP(e + 1, e);
		});
		auto pairg = gen::oneOf(fam(0x41, 0x5A, 32), fam(0x41, 0x5A, 32), fam(0xC0, 0xDE, 32), lat, fam(0x391, 0x3A9, 32), fam(0x410, 0x42F, 32), fam(0x400, 0x40F, 80),
		                        fam(0x531, 0x556, 48), fam(0x561, 0x586, 0), same, same,
		                        // near misses around the table end and the ranges' edges, and unrelated scalars (rare)
		                        gen::map(gen::pair(vf::irange<int>(1400, 1450), vf::irange<int>(-1, 1)), [](const std::pair<int, int>& p) { return PP(p.first, p.first + p.second); }));
		auto odd = gen::map(gen::pair(gen_scalar(), gen_scalar()), [](const std::pair<long long, long long>& p) { return PP(p.first, p.second); });
		auto chp = gen::mapcat(vf::irange<int>(0, 24), [=](int k) -> Gen<PP> { return k == 0 ? Gen<PP>(odd) : Gen<PP>(pairg); });
		auto g = gen::map(gen::tuple(gen::container<std::vector<PP>>(chp), vf::irange<int>(0, 19), gen_scalar()), [](const std::tuple<std::vector<PP>, int, long long>& t) {
			vf::Op o("nc");
			const auto& v = std::get<0>(t);
			for (auto& p : v)
				o.a.push_back(to_scalar(p.first));
			o.a.push_back(-1);
			for (auto& p : v)
				o.a.push_back(to_scalar(p.second));
			if (std::get<1>(t) == 0)
				o.a.push_back(to_scalar(std::get<2>(t)));
			else if (std::get<1>(t) == 1 && o.a.back() != -1)
				o.a.pop_back();
			vf::Case c;
			c.ops.push_back(o);
			return c;
		});
		vf::check_cases("nocase", a.n(8000, 20000), 24, g, [](const vf::Case& c) {
			const auto& v = c.ops[0].a;
			size_t sep = 0;
			while (sep < v.size() && v[sep] != -1)
				sep++;
			std::string x = ref::utf8(cps_of(v, 0, sep)), y = ref::utf8(cps_of(v, sep + 1, v.size()));
			bool e = String(x.c_str()).equalsNocase(String(y.c_str()));
			vf::stats().cls(x == y ? "nocase.identical" : e ? "nocase.equal_up_to_case" : "nocase.different");
			if (x != y)
				vf::stats().nt(vf::fnv(vf::serialize(c)));
			if (e && x != y && sep == 4)
				vf::stats().sample("nocase: " + vf::serialize(c), 12);
		});
		// ill-formed operands: unrelated pairs, and RELATED pairs (same pieces, ASCII case flipped, one piece replaced / dropped,
		// different ends: nothing / a lead byte cut by the end of the string / a stray continuation / an overlong NUL)
		auto tails = std::vector<std::string>{"", "", "\xC2", "\xDF", "\xE0", "\xE2\x82", "\xEF", "\xF0", "\xF0\x9F", "\xF4\x8F\xBF", "\x80", "\xC3", "\xC0\x80", "\xF8", "a", "Z"};
		auto unrelated = gen::map(gen::pair(gen_ill(40), gen_ill(40)), [](const std::pair<std::string, std::string>& p) {
			vf::Op o("nb");
			o.s = {p.first, p.second};
			vf::Case c;
			c.ops.push_back(o);
			return c;
		});
		auto asciiPiece = gen::map(gen::container<std::vector<int>>(vf::irange<int>(0x20, 0x7E)), [](const std::vector<int>& v) {
			std::string s;
			for (size_t i = 0; i < v.size() && i < 6; i++)
				s += (char)v[i];
			return s;
		});
		auto related = gen::map(gen::tuple(gen::container<std::vector<std::string>>(gen::oneOf(asciiPiece, asciiPiece, gen_piece())), gen::elementOf(tails), gen::elementOf(tails), vf::irange<int>(0, 7),
		                                   vf::irange<int>(0, 1000), gen_piece()),
		                        [](const std::tuple<std::vector<std::string>, std::string, std::string, int, int, std::string>& t) {
			                        std::vector<std::string> pa = std::get<0>(t);
			                        if (pa.size() > 8)
				                        pa.resize(8);
			                        std::vector<std::string> pb = pa;
			                        int mode = std::get<3>(t);
			                        size_t at = pb.empty() ? 0 : (size_t)std::get<4>(t) % pb.size();
			                        if (mode == 5 && !pb.empty())
				                        pb[at] = std::get<5>(t); // one piece replaced
			                        if (mode == 6 && !pb.empty())
				                        pb.erase(pb.begin() + at); // one piece dropped
			                        std::string x, y;
			                        for (auto& s : pa)
				                        x += s;
			                        for (auto& s : pb)
				                        y += s;
			                        if (mode & 1) // ASCII case flipped on one side
				                        for (auto& ch : y)
					                        if (isalpha((unsigned char)ch) && (unsigned char)ch < 0x80)
						                        ch ^= 0x20;
			                        vf::Op o("nb");
			                        o.s = {x + std::get<1>(t), y + std::get<2>(t)};
			                        vf::Case c;
			                        c.ops.push_back(o);
			                        return c;
		                        });
		auto g2 = gen::mapcat(vf::irange<int>(0, 3), [=](int k) -> Gen<vf::Case> { return k == 0 ? Gen<vf::Case>(unrelated) : Gen<vf::Case>(related); });
		vf::check_cases("nocase_ill", a.n(6000, 16000), 40, g2, [](const vf::Case& c) {
			std::string x = cut_nul(c.ops[0].str(0)), y = cut_nul(c.ops[0].str(1));
			bool vx = ref::utf8_decode(x), vy = ref::utf8_decode(y);
			if ((!vx || !vy) && x != y)
				vf::stats().nt(vf::fnv(vf::serialize(c)));
			bool e = String(x.c_str()).equalsNocase(String(y.c_str()));
			vf::stats().cls(vx && vy ? "nocase_ill.both_wellformed" : vx || vy ? "nocase_ill.one_illformed" : "nocase_ill.both_illformed");
			vf::stats().cls(x == y ? "nocase_ill.identical" : e ? "nocase_ill.equal_up_to_case/decoding" : "nocase_ill.different");
			auto bare = [](const std::string& s) { // ASCII* + one trailing lead byte
				if (s.empty() || (unsigned char)s.back() < 0xC0)
					return false;
				for (size_t i = 0; i + 1 < s.size(); i++)
					if ((unsigned char)s[i] >= 0x80)
						return false;
				return true;
			};
			if (bare(x) || bare(y))
				vf::stats().cls(e && x != y ? "nocase_ill.ascii+bare_trailing_lead.equal" : "nocase_ill.ascii+bare_trailing_lead.other");
			if (e && x != y && (!vx || !vy) && x.size() <= 6)
				vf::stats().sample("nocase_ill: nb | " + vf::hexs(x) + " " + vf::hexs(y), 14);
		});
	}();
	lap();
}
