// Dumps (input, reference output) pairs of the harness's independent reference codecs so that lib/audit.py can
// recompute them with python's stdlib (base64, binascii, hashlib, urllib.parse). No asl code involved.
#include "../harness/common/ref_codec.h"
#include <cstdio>
#include <string>
static std::string hx(const std::string& s) { return s.empty() ? "-" : ref::hex(s); }
int main(int argc, char** argv)
{
	unsigned long long seed = argc > 1 ? strtoull(argv[1], 0, 10) : 1;
	ref::SplitMix r(seed);
	for (int i = 0; i < 6000; i++) {
		size_t n = i < 300 ? i : r.below(3000);
		std::string in = r.bytes(n);
		printf("b64 %s %s\n", hx(in).c_str(), ref::base64(in).c_str());
		printf("hex %s %s\n", hx(in).c_str(), hx(in).c_str());
		printf("sha1 %s %s\n", hx(in).c_str(), ref::hex(ref::Sha1::hash(in)).c_str());
	}
	for (int i = 0; i < 6000; i++) {
		// well-formed percent text: literal bytes and %XX escapes (never %00)
		std::string t;
		size_t n = r.below(40);
		for (size_t k = 0; k < n; k++) {
			if (r.below(3) == 0) {
				char b[8];
				unsigned v = 1 + (unsigned)r.below(255);
				snprintf(b, sizeof b, r.below(2) ? "%%%02X" : "%%%02x", v);
				t += b;
			}
			else {
				char c = (char)(33 + r.below(94));
				t += c == '%' ? 'p' : c;
			}
		}
		printf("pct %s %s\n", hx(t).c_str(), hx(ref::pct_decode(t)).c_str());
	}
	return 0;
}
