// C15 (hostile decoder clause), coverage-guided: arbitrary NUL-free text to decodeBase64 / decodeHex / Url::decode.
// Oracle inside the target: result length in [0, input length]; ASan decides "in bounds" (inputs in exact-size blocks).
#include "common/vffuzz.h"
#include <asl/util.h>
#include <asl/Http.h>
using namespace asl;

void vf_fuzz_one(const uint8_t* data, size_t size)
{
	if (size < 1)
		return;
	int which = data[0] % 3;
	std::string t((const char*)data + 1, size - 1);
	for (auto& c : t)
		if (c == 0)
			c = '=';
	char* p = (char*)malloc(t.size() + 1);
	memcpy(p, t.c_str(), t.size() + 1);
	if (which == 0) {
		ByteArray a = decodeBase64(p);
		VF_ORACLE(a.length() >= 0 && a.length() <= (int)t.size(), "decodeBase64 length ", a.length(), " for ", vf::show(t));
		ByteArray b = decodeBase64(String(p));
		VF_ORACLE(b.length() == a.length(), "overloads disagree");
		vf::stats().cls("b64");
		if (t.find('=') != std::string::npos && t.size() >= 4)
			vf::fz_nt();
	}
	else if (which == 1) {
		ByteArray a = decodeHex(String(p));
		VF_ORACLE(a.length() >= 0 && a.length() <= (int)t.size(), "decodeHex length ", a.length(), " for ", vf::show(t));
		vf::stats().cls("hex");
		if (t.size() % 2)
			vf::fz_nt();
	}
	else {
		String d = Url::decode(String(p));
		VF_ORACLE(d.length() >= 0 && d.length() <= (int)t.size(), "Url::decode length ", d.length(), " for ", vf::show(t));
		vf::stats().cls("pct");
		if (t.find('%') != std::string::npos)
			vf::fz_nt();
	}
	if (vf::stats().evaluations % 40000 == 7)
		vf::stats().sample(std::string(which == 0 ? "b64 " : which == 1 ? "hex " : "pct ") + vf::show(t));
	free(p);
}
