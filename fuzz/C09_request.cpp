// C09 part A (coverage-guided): byte streams to the HTTP server's connection loop, entered in-process on one end of a
// socketpair; the peer has always ended the stream before the server runs ("peer closes at any point").
// The fuzz bytes are decoded structure-aware (request lines, header dictionary with hostile framing values, chunked
// bodies, up to 3 pipelined requests, byte mutations, cut offset) or taken raw (mode 0: the corpus holds real requests).
// Oracles: ASan; libFuzzer's -timeout (hang bound, confirmed by the driver); for every request the handler saw path()
// has no ".." on the bytes [0,length()); no method-less request; the reply never contains the file outside the web root.
#include "common/vffuzz.h"
#include "C09_common.h"

struct FdpSrc {
	FuzzedDataProvider& f;
	unsigned pick(unsigned n) { return n <= 1 ? 0 : f.ConsumeIntegralInRange<unsigned>(0, n - 1); }
	std::string bytes(unsigned maxlen) { return f.ConsumeBytesAsString(f.ConsumeIntegralInRange<unsigned>(0, maxlen)); }
};

void vf_fuzz_one(const uint8_t* data, size_t size)
{
	if (size < 2)
		return;
	FuzzedDataProvider f(data, size);
	FdpSrc s{f};
	unsigned cfg = f.ConsumeIntegral<uint8_t>();
	c09::Opts o;
	o.closemode = cfg & 1;
	o.respmode = (cfg >> 1) % 6;
	o.cors = (cfg & 0x40) != 0;
	unsigned mode = f.ConsumeIntegralInRange<unsigned>(0, 3);
	bool cut = f.ConsumeIntegral<uint8_t>() < 85;
	unsigned cutpos = f.ConsumeIntegral<uint16_t>();
	std::string stream;
	size_t nreq = 0;
	if (mode == 0) {
		stream = f.ConsumeRemainingBytesAsString();
		nreq = 1;
	}
	else {
		nreq = 1 + s.pick(3);
		std::vector<std::string> pieces;
		for (size_t i = 0; i < nreq; i++)
			c09::h_request(s, pieces);
		for (auto& p : pieces)
			stream += p;
		unsigned nm = s.pick(4);
		for (unsigned i = 0; i < nm && !stream.empty(); i++) {
			size_t pos = s.pick((unsigned)stream.size());
			switch (s.pick(5)) {
			case 0: stream[pos] = (char)(stream[pos] ^ (1 << s.pick(8))); break;
			case 1: stream[pos] = (char)s.pick(256); break;
			case 2: stream.insert(stream.begin() + pos, (char)s.pick(256)); break;
			case 3: stream.erase(pos, 1 + s.pick(8)); break;
			default: stream.insert(pos, stream.substr(pos, 1 + s.pick(16))); break;
			}
		}
	}
	if (cut && !stream.empty())
		stream.resize(cutpos % stream.size());
	c09::Result r = c09::run_stream(stream, o);
	c09::check_universal(r, stream, [&](const std::string& m) { VF_ORACLE(false, m, " | stream ", vf::show(stream, 400)); });
	// non-trivial: the stream reached the handler, or it was cut before a complete request was delivered
	if (!r.seen.empty() || cut)
		vf::fz_nt(vf::fnv(stream, cfg));
	vf::Stats& st = vf::stats();
	st.cls(r.seen.empty() ? "seen.0" : r.seen.size() == 1 ? "seen.1" : "seen.2+");
	st.cls(mode == 0 ? "mode.raw" : "mode.structured");
	if (cut)
		st.cls("cut");
	if (o.closemode)
		st.cls("peer.closed_completely");
	if (r.threaded)
		st.cls("concurrent_peer");
	if (r.bad_alloc)
		st.cls("bad_alloc(reservation>32MiB)");
	if (o.respmode == 1 || o.respmode == 5) {
		if (r.reply.find(" 206 ") != std::string::npos)
			st.cls("file.206");
		if (r.reply.find(" 416 ") != std::string::npos)
			st.cls("file.416");
		if (r.reply.find(" 301 ") != std::string::npos)
			st.cls("file.301");
		if (r.reply.find(" 304 ") != std::string::npos)
			st.cls("file.304");
	}
	for (auto& q : r.seen) {
		if (!q.body.empty())
			st.cls("seen.with_body");
		if (q.headers.count("Transfer-Encoding"))
			st.cls("seen.transfer_encoding");
		if (q.resource.find('%') != std::string::npos)
			st.cls("seen.pct_target");
		if (q.options)
			st.cls("seen.options");
	}
	if (st.evaluations % 30000 == 11 && !r.seen.empty())
		st.sample("fuzz stream " + vf::show(stream, 200) + " -> " + std::to_string(r.seen.size()) + " request(s), first path " + vf::show(r.seen[0].path));
}
