// C19 (robustness clause), coverage-guided: arbitrary strings of up to 40 characters over digits, 'T' 'Z' ':' '-' '+' '.',
// letters and space (plus ',' which the HTTP form uses) to Date(String).  Oracle: construction terminates (libFuzzer's
// -timeout) and is ASan-clean; the result is an invalid Date (NaN) or some value -- nothing else is asserted.
// Bytes outside the alphabet are folded into it, so every fuzzer input is inside the stated domain.
// The text is handed over in a heap-allocated String: 15 bytes end with the String object, >= 19 bytes live in a heap
// block of exactly length+1 bytes, so an over-read hits a redzone.
#include "common/vffuzz.h"
#include <asl/Date.h>
#include <memory>
using namespace asl;

static const char ALPHA[] = "0123456789TZ:-+. ,abcdefghijklmnopqrstuvwxyzABCDEFGHIJKLMNOPQRSUVWXY0123456789TZ:-+. 0123456789";

void vf_fuzz_one(const uint8_t* data, size_t size)
{
	if (size > 40)
		size = 40;
	std::string t((const char*)data, size);
	for (auto& c : t) {
		unsigned char u = (unsigned char)c;
		bool in = (u >= '0' && u <= '9') || (u >= 'a' && u <= 'z') || (u >= 'A' && u <= 'Z') || u == ':' || u == '-' || u == '+' || u == '.' || u == ' ' || u == ',';
		if (!in)
			c = ALPHA[u % (sizeof(ALPHA) - 1)];
	}
	std::unique_ptr<String> s(new String(t.c_str()));
	Date d(*s);
	double r = d.time();
	bool valid = r == r;
	// non-trivial: the text is date-like by a purely syntactic test (four leading digits and >= 8 characters, or a capital
	// first letter and >= 5 spaces)
	bool datelike = false;
	if (t.size() >= 8 && isdigit((unsigned char)t[0]) && isdigit((unsigned char)t[1]) && isdigit((unsigned char)t[2]) && isdigit((unsigned char)t[3]))
		datelike = true;
	else if (!t.empty() && t[0] > 'A' && t[0] < 'Z') {
		int sp = 0;
		for (char c : t)
			sp += c == ' ';
		datelike = sp >= 5;
	}
	vf::stats().cls(valid ? "fz.result_valid" : "fz.result_invalid");
	vf::stats().cls(datelike ? "fz.datelike" : "fz.not_datelike");
	if (t.size() == 15 || t.size() >= 19)
		vf::stats().cls("fz.flush_with_end_of_storage");
	if (datelike)
		vf::fz_nt(vf::fnv(t));
	if (valid && vf::stats().evaluations % 5000 == 3)
		vf::stats().sample("fz valid: " + vf::show(t), 12);
}
