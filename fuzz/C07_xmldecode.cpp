// C07 Part A, coverage-guided: arbitrary bytes -> Xml::decode.
// Oracle inside the target (refxml::decode_oracle): the call returns (libFuzzer's -timeout is only a backstop, no timing
// oracle), ASan is silent, and the result is the null element or a tree whose root has a null parent(), in which every
// child's parent() is its container and which has no more nodes than the input has bytes; trees whose names are
// XML 1.0 Names (refxml::name_ok: ':' and non-ASCII letters allowed, also first) must additionally survive encode -> decode (second clause of the property).
// The input is held in a heap String of exactly the input's size (an over-read hits the redzone) that is destroyed
// before the result is inspected.
#include "common/vffuzz.h"
#include "common/ref_xmltree.h"
#include <asl/Xml.h>
using namespace asl;

void vf_fuzz_one(const uint8_t* data, size_t size)
{
	std::string input((const char*)data, size);
	refxml::DecodeInfo info;
	std::string r = refxml::decode_oracle<Xml, String>(input, info);
	VF_ORACLE(r.empty(), r, " -- input ", vf::show(input, 300));
	vf::Stats& st = vf::stats();
	bool syntax = input.find('&') != std::string::npos || input.find("<!") != std::string::npos || input.find("<?") != std::string::npos;
	if ((!info.null && info.elements >= 2) || syntax)
		vf::fz_nt();
	st.cls(info.null ? "F.null" : "F.tree");
	if (!info.null) {
		if (info.elements >= 2)
			st.cls("F.tree.ge2elements");
		if (info.roundtrip)
			st.cls("F.tree.roundtripped");
		if (st.evaluations % 20000 == 11)
			st.sample("F tree from " + vf::show(input, 200));
	}
	if (input.find("&#") != std::string::npos)
		st.cls("F.charref");
	if (input.find("<!--") != std::string::npos)
		st.cls("F.comment");
	if (input.find("<!D") != std::string::npos)
		st.cls("F.doctype");
	if (input.find("</>") != std::string::npos)
		st.cls("F.empty_close_tag");
}
