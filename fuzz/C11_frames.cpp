// C11 (hostile peer clause), coverage-guided: a byte stream is delivered to one end of a socketpair, the WebSocket on
// the other end runs receive() until closed().  Oracles: no ASan report, every returned message has length() >= 0,
// the loop ends (result count bounded by the stream length; libFuzzer's -timeout is the hang bound).
//
// Input format (structure-aware, so that length fields reach the interesting values; raw records keep byte-level
// mutation possible):
//   byte 0      bit0 role (1 = client), bit1 also run the stream cut at `cut`
//   byte 1..2   cut position (big endian, modulo stream length + 1)
//   records     tag & 3 == 0: raw     n, n bytes copied verbatim
//               tag & 3 == 1: frame   b0 (FIN/RSV/opcode as is), flags (bit7 mask, bits0-1 length form, bits2-6 length
//                                     class: 0 = honest, else a value of the table below), [4 key bytes], n, n payload bytes
//               tag & 3 == 2: message well-formed text/binary message: flags (bit0 binary, bit1 masked, bits2-3 fragments-1,
//                                     bit4 ping inside), n, n payload bytes
//               tag & 3 == 3: frame   b0, flags (bit7 mask), 8 length bytes, [4 key bytes], n, n payload bytes
// Streams whose frames declare a length that a correct implementation would have to allocate (more than 1 MiB and
// below 2^31 - 1) without sending it are skipped: allocation pressure is not part of the property.
#include "common/vffuzz.h"
#include "common/ref_ws.h"
#include <asl/WebSocket.h>
#include <sys/socket.h>
#include <sys/time.h>
#include <thread>
#include <mutex>
#include <condition_variable>
#include <functional>
#include <algorithm>
using namespace asl;

static const unsigned long long LEN_TABLE[] = {
    0,          0,          1,          5,          125,         126,         127,         65535,
    65536,      0x7fffffffULL, 0x80000000ULL, 0x80000005ULL, 0xffffffffULL, 0xfffffffbULL, 0x100000000ULL, 0x100000005ULL,
    0x180000000ULL, 0x1fffffffbULL, 0x8000000000000000ULL, 0x8000000000000005ULL, 0xffffffffffffffffULL, 0x7fffffffffffffffULL, 0xffffffff80000000ULL, 0x7fffffff80000003ULL,
    200,        300,        1000,       4000,       70000,       0xffffULL,   0x10001ULL,  0x7ffffffeULL,
};

struct Peek : WebSocket {
	static Random& rng(WebSocket& w) { return w.*(&Peek::_random); }
};

struct Cur {
	const uint8_t* p;
	size_t n, i = 0;
	bool more() const { return i < n; }
	int u8() { return i < n ? p[i++] : 0; }
	std::string bytes(size_t k)
	{
		if (k > n - i)
			k = n - i;
		std::string s((const char*)p + i, k);
		i += k;
		return s;
	}
};

// persistent helper thread (a thread per execution is far too expensive under ASan)
struct Helper {
	std::mutex mu;
	std::condition_variable cv;
	std::function<void()> job;
	bool busy = false;
	Helper()
	{
		std::thread([this] {
			for (;;) {
				std::function<void()> j;
				{
					std::unique_lock<std::mutex> l(mu);
					cv.wait(l, [&] { return (bool)job; });
					j.swap(job);
				}
				j();
				{
					std::lock_guard<std::mutex> l(mu);
					busy = false;
				}
				cv.notify_all();
			}
		}).detach();
	}
	void start(std::function<void()> j)
	{
		std::lock_guard<std::mutex> l(mu);
		job = std::move(j);
		busy = true;
		cv.notify_all();
	}
	void wait()
	{
		std::unique_lock<std::mutex> l(mu);
		cv.wait(l, [&] { return !busy; });
	}
};
static Helper& drainer()
{
	static Helper* h = new Helper;
	return *h;
}

static std::string build(const uint8_t* data, size_t size, bool& isclient, bool& docut, size_t& cut)
{
	Cur c{data, size};
	int f = c.u8();
	isclient = f & 1;
	docut = (f & 2) != 0;
	cut = (size_t)c.u8() << 8;
	cut |= (size_t)c.u8();
	std::string s;
	while (c.more() && s.size() < 8192) {
		int tag = c.u8() & 3;
		if (tag == 0)
			s += c.bytes((size_t)c.u8());
		else if (tag == 1 || tag == 3) {
			int b0 = c.u8(), fl = c.u8();
			bool masked = (fl & 0x80) != 0;
			int form = tag == 3 ? 2 : (fl & 3) % 3;
			unsigned long long decl = 0;
			int cls = (fl >> 2) & 31;
			if (tag == 3)
				for (int k = 0; k < 8; k++)
					decl = (decl << 8) | (unsigned)c.u8();
			uint8_t key[4] = {0, 0, 0, 0};
			if (masked)
				for (int k = 0; k < 4; k++)
					key[k] = (uint8_t)c.u8();
			std::string pl = c.bytes((size_t)c.u8());
			if (tag == 1)
				decl = cls == 0 ? pl.size() : LEN_TABLE[cls];
			s += ref::ws_header((b0 & 0x80) != 0, (b0 >> 4) & 7, b0 & 15, masked, key, decl, form);
			s += masked ? ref::ws_mask(pl, key) : pl;
		}
		else {
			int fl = c.u8();
			std::string pl = c.bytes((size_t)c.u8());
			int nfrag = ((fl >> 2) & 3) + 1;
			size_t from = 0;
			for (int j = 0; j < nfrag; j++) {
				ref::WsFrame fr;
				fr.opcode = j == 0 ? ((fl & 1) ? 2 : 1) : 0;
				fr.fin = j == nfrag - 1;
				fr.masked = (fl & 2) != 0;
				fr.key[0] = (uint8_t)(0x5a + j), fr.key[1] = 0, fr.key[2] = (uint8_t)pl.size(), fr.key[3] = 0xff;
				size_t to = fr.fin ? pl.size() : pl.size() * (size_t)(j + 1) / (size_t)nfrag;
				fr.payload = pl.substr(from, to - from);
				from = to;
				s += ref::ws_encode(fr);
				if ((fl & 16) && j == 0) {
					ref::WsFrame pg;
					pg.opcode = 9;
					pg.payload = "p";
					pg.masked = fr.masked;
					s += ref::ws_encode(pg);
				}
			}
		}
	}
	return s;
}

// what a parser that follows the declared lengths sees: number of complete headers; `skip` when a frame would make a
// correct implementation allocate a large buffer
static size_t scan(const std::string& s, bool& skip)
{
	size_t headers = 0, pos = 0;
	skip = false;
	ref::WsFrame f;
	while (pos < s.size()) {
		std::string rest = s.substr(pos);
		size_t rp = 0;
		if (ref::ws_decode(rest, rp, f, true) != ref::WS_OK)
			break;
		headers++;
		if (f.declared > (1u << 20) && f.declared < 0x7fffffffULL) {
			skip = true;
			break;
		}
		if (f.declared > rest.size() - f.header_len)
			break;
		pos += rp;
	}
	return headers;
}

static void run(bool isclient, const std::string& s)
{
	int fds[2];
	if (socketpair(AF_UNIX, SOCK_STREAM, 0, fds) != 0)
		return;
	timeval tv;
	tv.tv_sec = 120;
	tv.tv_usec = 0;
	setsockopt(fds[0], SOL_SOCKET, SO_SNDTIMEO, &tv, sizeof tv);
	size_t off = 0;
	while (off < s.size()) {
		ssize_t w = send(fds[1], s.data() + off, s.size() - off, MSG_NOSIGNAL);
		if (w <= 0)
			break;
		off += (size_t)w;
	}
	shutdown(fds[1], SHUT_WR);
	// what the WebSocket writes back (pongs) is drained concurrently: a peer that never reads would block its sender
	static std::string back;
	back.clear();
	drainer().start([fd = fds[1]] {
		char buf[65536];
		for (;;) {
			ssize_t r = recv(fd, buf, sizeof buf, 0);
			if (r <= 0)
				break;
			back.append(buf, (size_t)r);
		}
	});
	{
		WebSocket ws(Socket(fds[0]), isclient);
		Peek::rng(ws).seed((ULong)vf::fnv(s)); // mask keys of the pongs: a function of the input, so that artifacts replay
		size_t iter = 0, bound = s.size() / 2 + 8, nonempty = 0;
		while (!ws.closed()) {
			WebSocketMsg m = ws.receive();
			VF_ORACLE(m.length() >= 0, "receive() returned a message of length ", m.length());
			VF_ORACLE((*m) != 0 && (*m)[m.length()] == 0, "receive() result of ", m.length(), " bytes without the terminating NUL of its C-string view");
			if (m.length() > 0) {
				ByteArray b = m;
				unsigned sum = 0;
				for (int i = 0; i < b.length(); i++)
					sum += b[i];
				(void)sum;
				nonempty++;
			}
			VF_ORACLE(++iter <= bound, "receive() loop does not end: ", iter, " results from a stream of ", s.size(), " bytes");
		}
		if (nonempty)
			vf::stats().cls("messages_delivered", nonempty);
	}
	drainer().wait(); // the WebSocket's end is closed now: the drain has seen EOF
	close(fds[1]);
	// a pong echoes the payload of a ping; one that carries anything else discloses memory the peer never sent
	std::vector<std::string> pings;
	size_t pos = 0;
	ref::WsFrame f;
	while (ref::ws_decode(s, pos, f) == ref::WS_OK)
		if (f.opcode == 9)
			pings.push_back(f.payload);
	pos = 0;
	while (ref::ws_decode(back, pos, f) == ref::WS_OK)
		if (f.opcode == 10)
			VF_ORACLE(std::find(pings.begin(), pings.end(), f.payload) != pings.end(), "pong with ", f.payload.size(),
			          " payload bytes that are not the payload of any complete ping of the stream (uninitialised memory disclosed)");
}

void vf_fuzz_one(const uint8_t* data, size_t size)
{
	if (size < 4)
		return;
	bool isclient, docut, skip;
	size_t cut;
	std::string s = build(data, size, isclient, docut, cut);
	size_t headers = scan(s, skip);
	if (skip) {
		vf::stats().discarded++;
		return;
	}
	run(isclient, s);
	if (headers >= 1)
		vf::fz_nt(vf::fnv(s, isclient));
	vf::stats().cls(headers == 0 ? "no_complete_header" : headers == 1 ? "1_header" : "2+_headers");
	if (docut && !s.empty()) {
		std::string t = s.substr(0, cut % (s.size() + 1));
		scan(t, skip);
		if (!skip) {
			run(isclient, t);
			vf::stats().cls("cut_variant");
		}
	}
	if (vf::stats().evaluations % 30000 == 11)
		vf::stats().sample((isclient ? "client <- " : "server <- ") + vf::hexs(s.substr(0, 60)));
}
