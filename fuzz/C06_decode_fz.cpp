#define VF_FUZZ_OWN_INIT
// C06 (byte-level part), coverage-guided: any byte string to the JSON/XDL decoder.
//   input = text bytes ++ tail; FuzzedDataProvider takes from the END: the number of cuts (0..7) and the cut positions.
// Oracles inside the target: Json::decode, Xdl::decode and XdlParser::decode agree; feeding the same text to an
// XdlParser in the chunks given by the cuts (each chunk in an exact-size heap block), then the final " " flush, gives
// the same result as the whole text (both rejected counts as equal).  ASan decides memory safety, libFuzzer's -timeout
// decides termination.  Parser objects are constructed per iteration.
#include "common/vffuzz.h"
#include "C06_walk.h"
using namespace asl;

// asl's global Console object installs SIGINT/SIGTERM handlers that call exit(); libFuzzer never replaces an existing
// handler, so the driver's SIGINT at a campaign timeout would end in "fuzz target exited" and a bogus crash- artifact.
// LLVMFuzzerInitialize runs before libFuzzer installs its handlers: give it the default dispositions back.
extern "C" int LLVMFuzzerInitialize(int*, char***)
{
	signal(SIGINT, SIG_DFL);
	signal(SIGTERM, SIG_DFL);
	return 0;
}

void vf_fuzz_one(const uint8_t* data, size_t size)
{
	FuzzedDataProvider fdp(data, size);
	int k = fdp.ConsumeIntegralInRange<int>(0, 7);
	std::vector<size_t> cuts;
	for (int i = 0; i < k; i++)
		cuts.push_back(fdp.ConsumeIntegral<uint16_t>());
	std::string t = fdp.ConsumeRemainingBytesAsString();
	for (auto& c : t)
		if (c == 0)
			c = ' ';
	for (auto& c : cuts)
		c %= t.size() + 1;
	std::sort(cuts.begin(), cuts.end());

	Var whole;
	std::string why;
	{
		XdlParser p;
		c06::ExactC w(t.data(), t.size());
		whole = p.decode(w.p);
		// reuse of the SAME parser object: after a complete document, reset() gives the behaviour of a fresh parser
		// (only then -- see C06_walk.h), for the text in chunks and once more whole
		if (whole.ok() && !c06::may_leave_surrogate_pending(t)) {
			p.reset();
			size_t prev = 0;
			for (size_t i = 0; i <= cuts.size(); i++) {
				size_t e = i < cuts.size() ? cuts[i] : t.size();
				c06::ExactC chunk(t.data() + prev, e - prev);
				p.parse(chunk.p);
				prev = e;
			}
			c06::ExactC sp(" ", 1);
			p.parse(sp.p);
			Var r = p.value();
			VF_ORACLE(c06::same(whole, r, why), "reused parser after reset() (chunked) differs from the first use: ", why, "; got ", c06::show(r), "; text ", vf::show(t, 200));
			p.reset();
			Var r2 = p.decode(w.p);
			VF_ORACLE(c06::same(whole, r2, why), "reused parser after reset() (whole, third use) differs from the first use: ", why, "; got ", c06::show(r2), "; text ", vf::show(t, 200));
			vf::stats().cls("reused_after_reset()", 2);
		}
	}
	{
		Var j = Json::decode(String(t.c_str()));
		VF_ORACLE(c06::same(whole, j, why), "Json::decode differs from XdlParser::decode: ", why, "; text ", vf::show(t, 200));
		Var x = Xdl::decode(String(t.c_str()));
		VF_ORACLE(c06::same(whole, x, why), "Xdl::decode differs from XdlParser::decode: ", why, "; text ", vf::show(t, 200));
	}
	{
		XdlParser p;
		size_t prev = 0;
		for (size_t i = 0; i <= cuts.size(); i++) {
			size_t e = i < cuts.size() ? cuts[i] : t.size();
			c06::ExactC chunk(t.data() + prev, e - prev);
			p.parse(chunk.p);
			prev = e;
		}
		c06::ExactC sp(" ", 1);
		p.parse(sp.p);
		Var v = p.value();
		std::string cs;
		for (size_t x : cuts)
			cs += std::to_string(x) + " ";
		VF_ORACLE(c06::same(whole, v, why), "cutting at ", cs, "gives a different result than the whole text: ", why, "; text ", vf::show(t, 200));
	}
	auto& st = vf::stats();
	st.cls(whole.ok() ? "accepted" : "rejected");
	bool inner_cut = false;
	for (size_t c : cuts)
		if (c > 0 && c < t.size())
			inner_cut = true;
	if (inner_cut)
		st.cls("has_cut_strictly_inside");
	// non-trivial: a cut strictly inside a text that has some structure (container, string, escape or comment character)
	if (inner_cut && t.find_first_of("[{\"\\/") != std::string::npos)
		vf::fz_nt(vf::fnv(t));
	if (whole.ok() && (whole.type() == Var::ARRAY || whole.type() == Var::OBJ) && whole.length() > 0)
		st.cls("accepted_nonempty_container");
	if (st.evaluations % 30000 == 11)
		st.sample(std::string(whole.ok() ? "accepted " : "rejected ") + vf::show(t, 120));
}
